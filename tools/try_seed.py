#!/usr/bin/env python3
"""Run checks against a seeded change without touching /repo:
    tools/try_seed.py <patch.diff> [--tier quick] [--props C01,C05] [--demo demo.py]
A scratch copy of /repo's working tree is made under a temp dir, the patch is
applied there, the checks run with VERIF_REPO=<scratch>, the copy is removed.
With --demo the demonstration is also run against the patched and the
unpatched copy (expects exit 1 / exit 0)."""
import argparse
import json
import os
import shutil
import subprocess
import sys
import tempfile

HERE = os.path.dirname(os.path.dirname(os.path.abspath(__file__)))
ALL = [f'C{i:02d}' for i in range(1, 21)]


def scratch(patch=None):
    tmp = tempfile.mkdtemp(prefix='verif_seed_')
    for name in ('lazy_dataset', 'tests', 'pytest.ini', 'setup.py'):
        src = os.path.join('/repo', name)
        dst = os.path.join(tmp, name)
        if os.path.isdir(src):
            shutil.copytree(src, dst, ignore=shutil.ignore_patterns('__pycache__'))
        elif os.path.exists(src):
            shutil.copy(src, dst)
    if patch:
        p = subprocess.run(['patch', '-p1', '-s', '-i', os.path.abspath(patch)], cwd=tmp,
                           capture_output=True, text=True)
        if p.returncode != 0:
            shutil.rmtree(tmp, ignore_errors=True)
            raise SystemExit(f'patch does not apply: {p.stdout}{p.stderr}')
    return tmp


def run_demo(repo, demo):
    env = dict(os.environ, OMP_NUM_THREADS='1', MKL_NUM_THREADS='1', PYTHONPATH=repo,
               PYTHONDONTWRITEBYTECODE='1')
    try:
        p = subprocess.run(['/venv/bin/python', '-W', 'ignore', os.path.abspath(demo)],
                           cwd=repo, env=env, capture_output=True, text=True, timeout=600)
        return p.returncode, (p.stdout + p.stderr)[-400:]
    except subprocess.TimeoutExpired:
        return 'timeout', ''


def main():
    ap = argparse.ArgumentParser()
    ap.add_argument('patch')
    ap.add_argument('--tier', default='quick')
    ap.add_argument('--props', default=','.join(ALL))
    ap.add_argument('--demo')
    ap.add_argument('--seed', default='0')
    args = ap.parse_args()
    out = {}
    if args.demo:
        clean = scratch()
        try:
            out['demo_unpatched'] = run_demo(clean, args.demo)
        finally:
            shutil.rmtree(clean, ignore_errors=True)
    tmp = scratch(args.patch)
    try:
        if args.demo:
            out['demo_patched'] = run_demo(tmp, args.demo)
            print('demo unpatched rc', out['demo_unpatched'][0], '| patched rc',
                  out['demo_patched'][0], flush=True)
        env = dict(os.environ)
        env.update(VERIF_REPO=tmp, VERIF_HOME=HERE, VERIF_SEED=args.seed,
                   VERIF_EVIDENCE_DIR=os.path.join(tmp, 'evidence'),
                   VERIF_REPLAY_DIR=os.path.join(tmp, 'replays'),
                   PYTHONPATH=f'{tmp}:{HERE}')
        for prop in args.props.split(','):
            p = subprocess.run([os.path.join(HERE, 'verif'), 'check', prop, '--tier',
                                args.tier], env=env, capture_output=True, text=True)
            kinds = sorted({l.split('kind=')[1].split()[0]
                            for l in p.stdout.splitlines() if l.strip().startswith('kind=')})
            verdict = {0: 'held', 1: 'VIOLATION', 2: 'inconclusive'}.get(p.returncode,
                                                                         p.returncode)
            out[prop] = (verdict, kinds)
            print(f'{prop}: {verdict} {",".join(kinds)}', flush=True)
            if p.returncode == 2:
                print('   ', [l for l in p.stdout.splitlines() if 'INCONCLUSIVE' in l][:2])
    finally:
        shutil.rmtree(tmp, ignore_errors=True)
    print(json.dumps(out))


if __name__ == '__main__':
    main()
