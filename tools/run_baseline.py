#!/usr/bin/env python3
"""Run the pinned pytest suite of a checkout (default /repo) with the hook guard
OFF and compare the set of passing tests with /root/.vp/BASELINE.json.
usage: run_baseline.py [repo_dir]"""
import json, os, subprocess, sys, tempfile, xml.etree.ElementTree as ET
repo = sys.argv[1] if len(sys.argv) > 1 else '/repo'
base = json.load(open('/root/.vp/BASELINE.json'))
want = set(base['stable_pass'])
tmp = tempfile.mkdtemp(prefix='baseline_')
xml = os.path.join(tmp, 'junit.xml')
env = {k: v for k, v in os.environ.items() if k not in ('LAZY_DATASET_VERIF', 'OMP_NUM_THREADS', 'MKL_NUM_THREADS')}
env['PYTHONPATH'] = repo
p = subprocess.run(['/venv/bin/python', '-m', 'pytest', '-ra', '-q', '-p', 'no:cacheprovider', '--timeout=900',
                    '--continue-on-collection-errors', f'--junitxml={xml}'],
                   cwd=repo, env=env, capture_output=True, text=True)
passed = set()
for tc in ET.parse(xml).getroot().iter('testcase'):
    ok = not any(ch.tag in ('failure', 'error', 'skipped') for ch in tc)
    name = f"{tc.get('classname')}::{tc.get('name')}"
    if ok: passed.add(name)
missing = sorted(want - passed)
print(f'passed {len(passed)}; baseline {len(want)}; baseline tests not passing now: {len(missing)}')
for m in missing: print('  MISSING', m)
print(p.stdout[-600:])
import shutil; shutil.rmtree(tmp, ignore_errors=True)
sys.exit(1 if missing else 0)
