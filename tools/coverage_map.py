#!/usr/bin/env python3
"""Which lines of lazy_dataset do the monitors' workloads actually execute?

    tools/coverage_map.py run   [--tier quick] [--props C01,C02]   run the checks with VERIF_COV set
    tools/coverage_map.py report [--file core.py]                  list unreached functions / line ranges

Runtime monitoring says nothing about code the workloads never drive; this
tool makes that limit visible.  It is an aid for extending the workloads, not
a check: nothing registered in MANIFEST.json depends on it.
"""
import os
import sys
import ast
import json
import glob
import subprocess

HERE = os.path.dirname(os.path.dirname(os.path.abspath(__file__)))
REPO = os.environ.get('VERIF_REPO', '/repo')
COV = os.path.join(HERE, '.cov')


def executable_lines(path):
    src = open(path).read()
    code = compile(src, path, 'exec')
    lines = set()

    def walk(co):
        for _, _, ln in co.co_lines():
            if ln:
                lines.add(ln)
        for c in co.co_consts:
            if hasattr(c, 'co_lines'):
                walk(c)
    walk(code)
    # docstring-only / def lines are executed at import; keep them all, the
    # report groups by function anyway
    return lines, ast.parse(src)


def functions(tree):
    out = []

    def visit(node, prefix):
        for ch in ast.iter_child_nodes(node):
            if isinstance(ch, (ast.FunctionDef, ast.AsyncFunctionDef)):
                out.append((prefix + ch.name, ch.lineno, ch.end_lineno, ch))
                visit(ch, prefix + ch.name + '.')
            elif isinstance(ch, ast.ClassDef):
                visit(ch, prefix + ch.name + '.')
            else:
                visit(ch, prefix)
    visit(tree, '')
    return out


def doc_lines(fn):
    """Lines of the docstring expression (never 'executed' as LINE events of
    the body in a useful sense)."""
    if fn.body and isinstance(fn.body[0], ast.Expr) and \
            isinstance(getattr(fn.body[0], 'value', None), ast.Constant) and \
            isinstance(fn.body[0].value.value, str):
        return set(range(fn.body[0].lineno, fn.body[0].end_lineno + 1))
    return set()


def main(argv):
    if argv and argv[0] == 'run':
        tier = 'quick'
        props = [f'C{i:02d}' for i in range(1, 21)]
        if '--tier' in argv:
            tier = argv[argv.index('--tier') + 1]
        if '--props' in argv:
            props = argv[argv.index('--props') + 1].split(',')
        env = dict(os.environ, VERIF_COV=COV,
                   VERIF_EVIDENCE_DIR=os.path.join(COV, 'evidence'),
                   VERIF_REPLAY_DIR=os.path.join(COV, 'replays'))
        for p in props:
            r = subprocess.run([os.path.join(HERE, 'verif'), 'check', p, '--tier', tier],
                               env=env, capture_output=True, text=True)
            print(p, 'exit', r.returncode, flush=True)
        return 0
    only = None
    if '--file' in argv:
        only = argv[argv.index('--file') + 1]
    hit = {}
    for f in glob.glob(os.path.join(COV, '*.json')):
        for fn, ln in json.load(open(f)):
            hit.setdefault(fn, set()).add(ln)
    for path in sorted(glob.glob(os.path.join(REPO, 'lazy_dataset', '*.py'))):
        base = os.path.basename(path)
        if only and base != only:
            continue
        lines, tree = executable_lines(path)
        h = hit.get(base, set())
        print(f'== {base}: {len(lines & h)}/{len(lines)} executable lines reached')
        for name, lo, hi, node in functions(tree):
            body = {l for l in lines if lo < l <= hi} - doc_lines(node)
            # drop lines that belong to nested functions (reported separately)
            for ch in ast.walk(node):
                if ch is not node and isinstance(ch, (ast.FunctionDef, ast.AsyncFunctionDef)):
                    body -= set(range(ch.lineno + 1, ch.end_lineno + 1))
            if not body:
                continue
            miss = sorted(body - h)
            if not miss:
                continue
            tag = 'NEVER ENTERED' if not (body & h) else 'partly'
            # compress
            rng = []
            for l in miss:
                if rng and l == rng[-1][1] + 1:
                    rng[-1][1] = l
                else:
                    rng.append([l, l])
            txt = ','.join(f'{a}' if a == b else f'{a}-{b}' for a, b in rng)
            print(f'  {name:55s} {tag:13s} {txt}')
    return 0


if __name__ == '__main__':
    sys.exit(main(sys.argv[1:]))
