#!/usr/bin/env python3
"""Print the cost table of DESIGN.md section 7 from the evidence files
(wall time, evaluations, a few counters of the last quick run of every check)."""
import json
import glob
import os

HERE = os.path.dirname(os.path.dirname(os.path.abspath(__file__)))
print('| check | quick (s) | evaluations | distinct non-trivial | shards |')
print('|---|---|---|---|---|')
for f in sorted(glob.glob(os.path.join(HERE, 'evidence', 'C*.json'))):
    e = json.load(open(f))
    c = e.get('coverage', {})
    print(f"| {e['property_id']} | {e.get('wall_s', '?')} | {c.get('evaluations', c.get('cases_evaluated', '?'))} "
          f"| {c.get('distinct_nontrivial', c.get('nontrivial', '?'))} | {c.get('shards', '?')} |")
