#!/usr/bin/env python3
"""Re-run every seeded change in /verif/seeded against the quick check of the
property it breaks (on scratch copies of /repo, never in /repo itself):

    tools/run_seeded.py [--only C05] [--jobs 3] [--all-props]

prints one line per change (caught / MISSED, violation kinds) and exits 1 if a
change is missed.  With --all-props the other 19 checks are run as well and
the properties that also fire are listed (cross-detection table of DESIGN.md
section 10)."""
import os
import sys
import json
import glob
import argparse
import subprocess
from concurrent.futures import ThreadPoolExecutor

HERE = os.path.dirname(os.path.dirname(os.path.abspath(__file__)))
ALL = [f'C{i:02d}' for i in range(1, 21)]


def one(sid, props):
    patch = os.path.join(HERE, 'seeded', sid, 'patch.diff')
    p = subprocess.run([sys.executable, os.path.join(HERE, 'tools', 'try_seed.py'), patch,
                        '--props', ','.join(props)], capture_output=True, text=True)
    last = [l for l in p.stdout.splitlines() if l.startswith('{')]
    if not last:
        return sid, None, (p.stdout + p.stderr)[-300:]
    return sid, json.loads(last[-1]), ''


def main():
    ap = argparse.ArgumentParser()
    ap.add_argument('--only', default='')
    ap.add_argument('--jobs', type=int, default=3)
    ap.add_argument('--all-props', action='store_true')
    a = ap.parse_args()
    ids = sorted(os.path.basename(d) for d in glob.glob(os.path.join(HERE, 'seeded', 'C*-*'))
                 if os.path.exists(os.path.join(d, 'patch.diff')))
    ids = [i for i in ids if i.startswith(a.only)]
    defused = [i for i in ids if 'defused_by_fix' in json.load(
        open(os.path.join(HERE, 'seeded', i, 'meta.json')))]
    for i in defused:
        print(f'{i:8s} skipped: no longer breaks the property since a repair of the '
              f'repository (see its meta.json)')
    ids = [i for i in ids if i not in defused]
    missed = []
    with ThreadPoolExecutor(a.jobs) as ex:
        futs = [ex.submit(one, i, ALL if a.all_props else [i.split('-')[0]]) for i in ids]
        for f in futs:
            sid, out, err = f.result()
            own = sid.split('-')[0]
            if out is None:
                print(f'{sid:8s} ERROR {err}', flush=True)
                missed.append(sid)
                continue
            v = out.get(own, ['?', []])
            others = sorted(p for p, r in out.items() if p != own and r[0] == 'VIOLATION')
            tag = 'caught' if v[0] == 'VIOLATION' else f'MISSED ({v[0]})'
            print(f'{sid:8s} {tag:18s} {",".join(v[1])[:90]:90s} '
                  + (f'also: {",".join(others)}' if others else ''), flush=True)
            if v[0] != 'VIOLATION':
                missed.append(sid)
    print(f'{len(ids) - len(missed)}/{len(ids)} seeded changes caught by the check of their '
          f'own property' + (f'; missed: {missed}' if missed else ''))
    return 1 if missed else 0


if __name__ == '__main__':
    sys.exit(main())
