#!/usr/bin/env python3
"""Regenerates MANIFEST.json from the table below (run from /verif)."""
import json
import os
import subprocess

HERE = os.path.dirname(os.path.dirname(os.path.abspath(__file__)))

# property -> (level, technique, level text, level note, design ref)
TABLE = {
 'C01': ('exploration', 'differential monitor: real pipelines vs an eager reference interpreter over bounded-exhaustive and random pipeline programs',
         'Every pipeline program of depth <= D (quick 2, thorough 3) over the operation alphabet plus random deeper ones is run against the real library; iteration (twice, after other accesses, through copy) is compared with a reference interpreter on unambiguous symbolic terms. Held on the programs executed, nothing more.',
         'Trusts the ~400-line reference interpreter (cross-checked by the law-based monitor C16, which does not use it) and numpy list semantics.', '3 C01'),
 'C02': ('exploration', 'runtime monitor over observed executions: len / every index of both signs and three integer types vs the iterated sequence',
         'For every program whose result reports indexable (the library\'s own flag) all indices in [-n-2, n+2) are probed as int, np.int64, np.int32 and compared with the iterated sequence; out-of-range must raise IndexError.',
         'The antecedent is the library\'s own `indexable`/`len`; no model is needed for the oracle.', '3 C02'),
 'C03': ('exploration', 'differential monitor: keys()/items()/key lookup incl. absent keys vs reference interpreter, items() requested after every program prefix',
         'keys(), items(), ds[key] for present and absent keys are observed on every program and every prefix and compared with the reference key/value list; an absent key must not return.',
         'Reference interpreter; any exception counts as a refusal (class is tallied, not judged).', '3 C03'),
 'C04': ('exploration', 'controlled thread scheduler (real threads, one baton, line-level preemption) + history checker for order / exactly-once; real-thread and process-pool stress runs',
         'All schedules with <= c preemptions on small scenarios, random/PCT and directed schedules beyond, real primitives under yield injection, and process pools with perturbed completion orders; delivered sequence and start multiset are checked per execution.',
         'Cooperative shims of Queue/Thread/ThreadPoolExecutor behave like CPython\'s (cross-checked by the real-primitive runs); process-pool schedules are perturbed, not controlled.', '3 C04'),
 'C05': ('exploration', 'controlled scheduler with deadlock-as-state detection, thread registry and late-event monitor over every stop plan; directed consumer-first-after-close policy for cancellation',
         'No reachable all-blocked state, no live background thread and no user-code event after control returned, for every stop point k under bounded-exhaustive and random schedules; cancellation judged under the directed policy that makes it a theorem.',
         '"Finite time" restated as absence of deadlock states plus a logical step bound; process pools only perturbed.', '3 C05'),
 'C06': ('fault_enumeration', 'fault injection at every source/function position under the controlled scheduler; prefix-then-same-exception history checker',
         'Every single and paired failing position, several exception classes (incl. BaseException), source vs function vs later stage, with and without catch_filter_exception, raced against delivery and shutdown.',
         'Same shim fidelity assumption as C04; BaseException is not injected into multiprocessing workers (kills the stdlib worker).', '3 C06'),
 'C07': ('exploration', 'online invariant monitor on pull/start/deliver events under a starve-the-consumer schedule and random schedules; maximum read-ahead reported',
         'pulled-delivered <= b+2 and started-delivered <= b checked at every event; the run is inconclusive unless the bound is actually reached, so an off-by-one in either direction is visible.',
         'Exact under the controlled scheduler; real-thread runs use an in-flight correction that can only miss, never false-alarm.', '3 C07'),
 'C08': ('exploration', 'call-log monitor: per-stage user-function call sequences after every k next() calls vs a lazy reference evaluator; provenance check for ds[i]/ds[key]',
         'Construction must log nothing; after k results each stage\'s call sequence must equal the lazy evaluator\'s (subset with bounded look-ahead behind buffering stages); ds[i] calls exactly the provenance of the returned term.',
         'Lazy reference evaluator (generators + point-wise get); only per-stage order is judged.', '3 C08'),
 'C09': ('exploration', 'history monitor: mutate every handed-out example, then re-read by every access path and deep-compare with a pristine snapshot',
         'Bounded-exhaustive access/mutation histories of length <= 3 and random histories of length 30 over all constructors, immutability modes, memory cache, eager cache and disk cache.',
         'Six in-place mutators on nested examples; `copy` mode exempts the original container as the statement does.', '3 C09'),
 'C10': ('exploration', 'history monitor with value-tagged computations (each upstream call returns a fresh call number) and scripted psutil memory readings',
         'Every returned value names the computation it came from, so transparency, compute-once, sharing between copies, freezing after the memory threshold and eager snapshots are decided on each access of each history.',
         'psutil.virtual_memory is scripted, real memory pressure is not produced.', '3 C10'),
 'C11': ('fault_enumeration', 'lifecycle monitor over one cache directory incl. SIGKILL of the writing process after every k-th acknowledged store and at random instants inside stores',
         'Values, per-instance upstream call counters and directory existence are checked after every lifecycle step; after a kill a fresh process must serve every acknowledged example with zero upstream calls.',
         'diskcache/sqlite durability is exercised, not proven; interpreter-exit clearing is observation only.', '3 C11'),
 'C12': ('exploration', 'multiset/displacement monitor on every iterator, with all interleavings of next() calls of 2-3 concurrent iterators over one dataset object',
         'Each iterator\'s output must be a permutation of the input (sampling: no repeats); local shuffle displacement <= buffer_size-1; all interleavings enumerated for small n.',
         'Real seeded generators (RandomState, default_rng, global np.random).', '3 C12'),
 'C13': ('exploration', 'twin-run monitor (equal seeds, different global numpy state per epoch) + structural copy-fidelity monitor over vars() of every stage',
         'Epoch-by-epoch equality of equal-seeded builds, of copy() and behind prefetch; frozen orders stay fixed; every stage class with non-default parameters compared with its copy.',
         'Structural comparison reads vars() of stages (rng by identity or equal state).', '3 C13'),
 'C14': ('fault_enumeration', 'fault enumeration: all 2^n subsets of failing positions x exception type plans x raising depth; catch() output vs model',
         'Every subset of failing positions for n <= 5 (quick) / 7 (thorough), listed / unlisted / subclass / tuple exception plans, value and key iteration, three equivalent filter formulations.',
         'Model: examples whose evaluation does not raise a listed type, in order.', '3 C14'),
 'C15': ('exploration', 'exhaustive runtime check of split/shard over all (n, k) up to a bound',
         'All 0<=n<=N, -1<=k<=n+2 (N=60 quick, 300 thorough), every part observed; disjoint, complete, ordered, balanced, shard==split[i], illegal counts refused.',
         'Integers as examples make any loss/duplication visible.', '3 C15'),
 'C16': ('exploration', 'metamorphic monitor: both sides of each algebraic law embedded in random prefixes/continuations and fully observed',
         'Needs no reference interpreter: observation(P++lhs++Q) == observation(P++rhs++Q) restricted to the capabilities both sides have.',
         'Laws as listed in the statement.', '3 C16'),
 'C17': ('exploration', 'online invariant monitor on pull/emit events of the bucket dataset (instrumented source and bucket class), exhaustive length sequences x parameter grid, drop mode decided differentially',
         'Conservation, non-empty, batch_size, padding rate, max_total_size, expiration and max_buffered bounds checked at every emitted batch / pull; drop_incomplete=True compared with its non-drop twin.',
         'Bucket evolution is identical between the twin runs by construction.', '3 C17'),
 'C18': ('exploration', 'direct runtime checks of sort/groupby results (permutation, monotone keys, no example comparison, keys attached, partition, in-group order)',
         'Lengths 0..7, tying sort keys, reverse, custom sort_fn, un-orderable payloads, group ids of several types, upstream programs.',
         'No order among ties is demanded.', '3 C18'),
 'C19': ('exploration', 'differential monitor of the database layer vs a 40-line merge/alias model over bounded-exhaustive descriptions and request sequences',
         'Dict and JSON databases, 1..3 merged parts, aliases, duplicates, extra keys, request sequences with gc between, pickled JSON database, deep comparison of sources.',
         'An absent alias section is normalised to {} when comparing sources.', '3 C19'),
 'C20': ('exploration', 'differential monitor ProfilingDataset(P) vs P + hit-count oracle from instrumented functions / lazy evaluator + structural snapshot of P',
         'Examples, order, length and errors compared; per-stage successful-fetch counts must equal the reference counts; P must be untouched.',
         'Counts read from the documented repr report.', '3 C20'),
}


def main():
    claimed = []
    mon_dir = os.path.join(HERE, 'vlib', 'monitors')
    for p in sorted(TABLE):
        if os.path.exists(os.path.join(mon_dir, p.lower() + '.py')):
            claimed.append(p)
    commits = []
    try:
        out = subprocess.run(
            ['git', '-C', '/repo', 'log', '--format=%H %s'],
            capture_output=True, text=True).stdout
        for line in out.splitlines():
            sha, _, subj = line.partition(' ')
            if subj.startswith('hook:'):
                commits.append(sha)
    except Exception:
        pass
    na_path = os.path.join(HERE, 'tools', 'not_applicable.json')
    na_reasons = json.load(open(na_path)) if os.path.exists(na_path) else {}
    man = {
        'version': 1,
        'setup_cmd': './verif-setup',
        'hooks': {
            'guard': 'LAZY_DATASET_VERIF',
            'enable': 'none needed: every monitor observes through caller-supplied objects (functions, sources, rng, bucket_cls) or names patched inside the harness process; ./verif exports LAZY_DATASET_VERIF=1 for uniformity but the repository does not read it',
            'baseline_off_cmd': 'cd /repo && /venv/bin/python -m pytest -ra -q -p no:cacheprovider --timeout=900 --continue-on-collection-errors',
            'source_commits': commits,
            'add_only': True,
        },
        'engines': [
            {'name': 'vlib', 'path': 'vlib', 'serves_properties': claimed,
             'kind_free_text': 'pure-Python runtime monitors: program generator + reference interpreters, instrumented user objects, controlled thread scheduler, history checkers'},
        ],
        'checks': [],
        'notes': 'All checks import lazy_dataset from the working tree of $VERIF_REPO (default /repo). Exit 0 held on what was observed, 1 VIOLATION, 2 INCONCLUSIVE. See DESIGN.md.',
        'not_applicable': [],
    }
    for p in claimed:
        level, tech, text, note, ref = TABLE[p]
        man['checks'].append({
            'property_id': p,
            'quick_cmd': f'./verif check {p} --tier quick',
            'thorough_cmd': f'./verif check {p} --tier thorough',
            'evidence_file': f'evidence/{p}.json',
            'replay_cmd_template': './verif replay {path}',
            'engine': 'vlib',
            'level_claimed': {'category': level, 'text': text, 'design_ref': 'DESIGN.md section ' + ref},
            'level_note': note,
            'technique': tech,
        })
    for p in sorted(TABLE):
        if p not in claimed:
            man['not_applicable'].append({
                'property_id': p,
                'reason': na_reasons.get(p, 'monitor designed (DESIGN.md section 3) but not built yet; nothing is claimed for it')})
    with open(os.path.join(HERE, 'MANIFEST.json'), 'w') as fd:
        json.dump(man, fd, indent=1)
    print('claimed', claimed)


if __name__ == '__main__':
    main()
