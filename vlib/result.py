"""Result accumulator used inside a shard and merged across shards."""
import collections

from .common import stable_hash, jsonable

MAX_VIOLATIONS_PER_SHARD = 2000
MAX_VIOLATIONS_PER_SIGNATURE = 25
MAX_SAMPLES_PER_SHARD = 3


class Result:
    def __init__(self):
        self.evaluations = 0
        self.nontrivial = set()          # 64-bit hashes of distinct non-trivial cases
        self.counters = collections.Counter()
        self.maxima = {}
        self.sets = collections.defaultdict(set)
        self.samples = []
        self.violations = []             # witness dicts
        self.violation_count = 0
        self.inconclusive = []           # reasons

    # ---- recording -------------------------------------------------------
    def case(self, key, nontrivial=True):
        """Count one evaluated case; `key` identifies it for distinctness."""
        self.evaluations += 1
        if nontrivial:
            self.nontrivial.add(stable_hash(key))

    def count(self, name, n=1):
        self.counters[name] += n

    def maximum(self, name, value):
        if name not in self.maxima or value > self.maxima[name]:
            self.maxima[name] = value

    def seen(self, name, value):
        self.sets[name].add(value)

    def sample(self, obj, force=False):
        if force or len(self.samples) < MAX_SAMPLES_PER_SHARD:
            self.samples.append(jsonable(obj))

    def violation(self, kind, case, detail=None, sig=None):
        """Record a witness.  `sig` is the mechanism signature used to match
        known findings (must not contain seeds, hashes or random values)."""
        self.violation_count += 1
        self.counters['violation:' + kind] += 1
        s = {'kind': kind}
        s.update(sig or {})
        # the cap is per mechanism signature: thousands of witnesses of one
        # (possibly known) mechanism must not crowd out another one
        key = stable_hash(jsonable(s))
        self._per_sig = getattr(self, '_per_sig', {})
        self._per_sig[key] = self._per_sig.get(key, 0) + 1
        if self._per_sig[key] <= MAX_VIOLATIONS_PER_SIGNATURE and \
                len(self.violations) < MAX_VIOLATIONS_PER_SHARD:
            self.violations.append({
                'kind': kind, 'case': jsonable(case),
                'detail': jsonable(detail), 'sig': jsonable(s)})

    def inconclusive_because(self, reason):
        self.inconclusive.append(reason)

    # ---- (de)serialisation ------------------------------------------------
    def dump(self):
        return {
            'evaluations': self.evaluations,
            'nontrivial': self.nontrivial,
            'counters': dict(self.counters),
            'maxima': dict(self.maxima),
            'sets': {k: set(v) for k, v in self.sets.items()},
            'samples': self.samples,
            'violations': self.violations,
            'violation_count': self.violation_count,
            'inconclusive': self.inconclusive,
        }

    def merge(self, d):
        self.evaluations += d['evaluations']
        self.nontrivial |= d['nontrivial']
        self.counters.update(d['counters'])
        for k, v in d['maxima'].items():
            self.maximum(k, v)
        for k, v in d['sets'].items():
            self.sets[k] |= v
        self.samples.extend(d['samples'])
        self.violations.extend(d['violations'])
        self.violation_count += d['violation_count']
        self.inconclusive.extend(d['inconclusive'])
