"""Child process for C03: a key that the joined dataset does not contain is
looked up inside the workers of a parallel map / prefetch.

    python -m vlib.c03_child '<json: backend, kind, via>'

Prints one line RESULT <json>: delivered values, outcome and the exception's
type name and MRO names."""
import sys
import json


def main(arg):
    sc = json.loads(arg)
    from vlib.common import import_lazy_dataset
    from vlib.procpool_fns import Lookup
    ld = import_lazy_dataset()
    d = ld.new({f'k{i}': i for i in range(4)})
    kind = sc['kind']
    if kind == 'dict':
        other = d
    elif kind == 'slice':
        other = d[1:]
    elif kind == 'concat':
        other = d[:2].concatenate(d[2:])
    elif kind == 'intersperse':
        other = d[:2].intersperse(d[2:])
    elif kind == 'map':
        other = d.map(abs)
    else:
        raise ValueError(kind)
    keys = ld.new(['k2', 'k3', 'absent', 'k1'])
    if sc['via'] == 'parmap':
        ds = keys.map(Lookup(other), num_workers=2, buffer_size=2, backend=sc['backend'])
    else:
        ds = keys.map(Lookup(other)).prefetch(2, 2, sc['backend'])
    got = []
    out = {}
    try:
        for x in ds:
            got.append(x)
        out['outcome'] = 'exhausted'
    except BaseException as e:
        out['outcome'] = 'raised'
        out['type'] = type(e).__name__
        out['mro'] = [c.__name__ for c in type(e).__mro__]
        out['arg0'] = repr(e.args[0]) if e.args else None
    out['delivered'] = got
    sys.stdout.write('RESULT ' + json.dumps(out, default=repr) + '\n')
    sys.stdout.flush()


if __name__ == '__main__':
    main(sys.argv[1])
