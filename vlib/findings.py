"""Known findings: committed file, read-only at run time.

An entry matches a witness iff every key of its `match` mechanism signature
agrees with the witness' `sig` (a list in `match` means "one of").  Signatures
describe mechanisms (kind of divergence, the operation that causes it), never
seeds, hashes or random values.  `status: fixed` entries match nothing."""
import json

from .common import HOME

FILE = HOME / 'known_findings.json'


def load():
    if not FILE.exists():
        return []
    with open(FILE) as fd:
        return json.load(fd).get('findings', [])


def _agree(pattern, value):
    if isinstance(pattern, list):
        return value in pattern
    return value == pattern


def classify(prop, witness, entries=None):
    """Return the matching open finding entry, or None."""
    entries = load() if entries is None else entries
    sig = witness.get('sig') or {}
    for e in entries:
        if e.get('property') != prop or e.get('status') != 'open':
            continue
        m = e.get('match') or {}
        if m and all(_agree(v, sig.get(k)) for k, v in m.items()):
            return e
    return None
