"""Observation of a dataset at its API boundary.  Every exception is caught and
classified; nothing here knows what the right answer is."""
import signal
import itertools

import numpy as np

SRC_KEYS = [f'k{i}' for i in range(13)] + [f'q{i}' for i in range(4)]
ABSENT = ['zz', 'k99']


class Watchdog(BaseException):
    pass


class watchdog:
    """Generous wall-clock guard around one case; firing is *inconclusive*."""

    def __init__(self, seconds):
        self.seconds = seconds

    def _fire(self, *a):
        raise Watchdog()

    def __enter__(self):
        self.old = signal.signal(signal.SIGALRM, self._fire)
        signal.setitimer(signal.ITIMER_REAL, self.seconds)

    def __exit__(self, *a):
        signal.setitimer(signal.ITIMER_REAL, 0)
        signal.signal(signal.SIGALRM, self.old)
        return False


def err(e):
    return ('!', type(e).__name__)


def is_err(x):
    return isinstance(x, tuple) and len(x) == 2 and x[0] == '!'


def guarded(fn):
    try:
        return fn()
    except Watchdog:
        raise
    except BaseException as e:      # noqa: the library's refusal is data
        return err(e)


def take(ds, limit, with_items=False):
    """Up to `limit` examples; ('...', k) marks a stream cut at the limit."""
    def run():
        it = iter(ds.items()) if with_items else iter(ds)
        out = list(itertools.islice(it, limit))
        more = False
        if len(out) == limit:
            try:
                next(it)
                more = True
            except StopIteration:
                more = False
        close = getattr(it, 'close', None)
        if close:
            close()
        return out, more
    r = guarded(run)
    return r


def observe(ds, limit, aspects=('iter', 'len', 'index', 'keys', 'items', 'bykey',
                                'copy'), key_universe=None, finite=True):
    """limit: number of examples to take from any iteration (n + 3 for a
    finite expectation, so that over-production is seen)."""
    o = {}
    o['iter1'] = take(ds, limit)
    if 'iter' in aspects:
        o['iter2'] = take(ds, limit)
    o['len'] = guarded(lambda: len(ds))
    o['indexable'] = guarded(lambda: ds.indexable)
    o['ordered'] = guarded(lambda: ds.ordered)
    n = None
    if not is_err(o['iter1']) and not o['iter1'][1]:
        n = len(o['iter1'][0])
    if 'index' in aspects and finite and n is not None:
        gets = {}
        for i in range(-n - 2, n + 2):
            a = guarded(lambda: ds[i])
            b = guarded(lambda: ds[np.int64(i)])
            c = guarded(lambda: ds[np.int32(i)])
            # the narrowest numpy integer type that holds i (unsigned for
            # every other non-negative i): index arithmetic inside a stage
            # must not wrap around in the caller's integer width
            if 0 <= i < 256 and i % 2:
                narrow = np.uint8(i)
            elif -128 <= i < 128:
                narrow = np.int8(i)
            else:
                narrow = np.int16(i) if -32768 <= i < 32768 else np.int64(i)
            d = guarded(lambda: ds[narrow])
            gets[i] = (a, b, c, d)
        o['get'] = gets
    if 'keys' in aspects and finite:
        o['keys'] = guarded(lambda: tuple(ds.keys()))
    if 'items' in aspects:
        o['items'] = take(ds, limit, with_items=True)
    if 'bykey' in aspects and finite:
        ku = (key_universe if key_universe is not None else SRC_KEYS) + ABSENT
        o['bykey'] = {k: guarded(lambda: ds[k]) for k in ku}
    if 'copy' in aspects:
        def cp():
            c = ds.copy()
            return take(c, limit)
        o['copy_iter'] = guarded(cp)
    if 'partial' in aspects:
        o['partial'] = (take(ds, 1), take(ds, limit))
    if 'iter' in aspects:
        o['again'] = take(ds, limit)
    # asked again after everything else (a first, refused len() must not
    # leave anything behind that answers the second one)
    o['len_again'] = guarded(lambda: len(ds))
    return o
