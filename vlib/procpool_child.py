"""Child process for process-pool cases:  python -m vlib.procpool_child '<json>'

Runs one scenario with a real process backend.  The mapped function appends
"start i t" / "end i t" records (CLOCK_MONOTONIC) to an O_APPEND file, sleeps a
seeded per-task delay (so that tasks finish out of submission order) and raises
the scripted faults.  The result is printed as one JSON line."""
import os
import sys
import json
import time


from vlib.procpool_fns import UserExc, ProcFn


def main(arg):
    sc = json.loads(arg)
    from vlib.common import import_lazy_dataset
    ld = import_lazy_dataset()
    fn = ProcFn(sc['log'], sc['delays'], sc.get('faults') or {})
    n, b, w, backend = sc['n'], sc['b'], sc['w'], sc['backend']
    catch = {'none': None, 'true': True, 'user': UserExc}[sc.get('catch', 'none')]
    base = ld.new(list(range(n)))
    if sc.get('diskcache'):
        # a disk cache (default clear=True) below the process-pool prefetch:
        # the workers get pickled copies of it; two epochs, then the state of
        # the directory while the dataset is alive and after its release
        import gc
        import tempfile
        d = os.path.join(tempfile.mkdtemp(prefix='verif_dc_'), 'cache')
        cached = base.map(fn).diskcache(d)
        ds = cached.prefetch(w, b, backend)
        out = {}
        for name in ('first', 'second'):
            try:
                got = list(ds)
                out[name] = {'delivered': got, 'outcome': 'exhausted', 'extra': None}
            except BaseException as e:
                out[name] = {'delivered': [], 'outcome': 'raised',
                             'extra': [type(e).__name__, repr(e.args)[:200]]}
        out['dir_while_alive'] = os.path.isdir(d)
        out['direct'] = [cached[i] for i in range(n)] if out['dir_while_alive'] else None
        del ds, cached
        gc.collect()
        out['dir_after_release'] = os.path.isdir(d)
        sys.stdout.write('RESULT ' + json.dumps(out, default=repr) + '\n')
        sys.stdout.flush()
        return
    if sc['entry'] == 'pft':
        ds = base.map(fn).prefetch(w, b, backend, catch_filter_exception=catch)
    else:
        ds = base.map(fn, num_workers=w, buffer_size=b, backend=backend)
    out = {}

    def consume(limit):
        got, err = [], None
        it = iter(ds)
        try:
            for _ in range(limit):
                got.append(next(it))
        except StopIteration:
            return got, 'exhausted', None
        except BaseException as e:
            return got, 'raised', [type(e).__name__, repr(e.args)]
        if stop[0] == 'drop':
            import gc
            del it
            gc.collect()
        else:
            it.close()
        return got, 'stopped', time.monotonic()
    if sc.get('two_iterators_one_closed'):
        # two iterations of the one dataset alive; the first is closed while
        # the second has tasks in flight; the second goes on to its end
        a, b = iter(ds), iter(ds)
        got_a, got_b = [next(a)], [next(b)]
        a.close()
        try:
            got_b += list(b)
            oc = 'exhausted'
        except BaseException as e:
            oc = 'raised:' + type(e).__name__
        out['first'] = {'delivered': got_a, 'outcome': 'stopped', 'extra': None}
        out['second'] = {'delivered': got_b, 'outcome': oc, 'extra': None}
        sys.stdout.write('RESULT ' + json.dumps(out, default=repr) + '\n')
        sys.stdout.flush()
        return
    if sc.get('two_iterators_interleaved'):
        # two iterations alive, advanced in turns; each one on its own
        # delivers what a single iteration delivers (an error of one of them
        # is not the end of the other)
        its = [iter(ds), iter(ds)]
        got = [[], []]
        oc = [None, None]
        extra = [None, None]
        for _ in range(n + 5):
            for k, it in enumerate(its):
                if oc[k] is not None:
                    continue
                try:
                    got[k].append(next(it))
                except StopIteration:
                    oc[k] = 'exhausted'
                except BaseException as e:
                    oc[k], extra[k] = 'raised', [type(e).__name__, repr(e.args)]
        for k, name in enumerate(('first', 'second')):
            out[name] = {'delivered': got[k], 'outcome': oc[k] or 'unfinished',
                         'extra': extra[k]}
        sys.stdout.write('RESULT ' + json.dumps(out, default=repr) + '\n')
        sys.stdout.flush()
        return
    stop = sc.get('stop') or ['exhaust']
    try:
        out['len'] = len(ds)
    except BaseException:
        out['len'] = None
    limit = n + 5 if stop[0] == 'exhaust' else stop[1]
    got, oc, extra = consume(limit)
    out['first'] = {'delivered': got, 'outcome': oc, 'extra': extra}
    if oc == 'stopped':
        out['closed_at'] = extra
        time.sleep(sc.get('settle', 0.6))
    if sc.get('again'):
        got, oc, extra = consume(n + 5)
        out['second'] = {'delivered': got, 'outcome': oc, 'extra': extra}
    sys.stdout.write('RESULT ' + json.dumps(out, default=repr) + '\n')
    sys.stdout.flush()


if __name__ == '__main__':
    main(sys.argv[1])
