"""Concurrency scenarios for the prefetch / parallel-map code, executed under
the controlled scheduler (vlib/detsched.py), and the history checkers that the
monitors C04 - C07 apply to the recorded event logs.

A scenario is a plain dict (JSON-able):
    entry   stp | lpm | pf1 | pft | parmap | chain | chainmid
    n, b, w numbers of examples, buffer size, workers
    key     iterate .items() instead of values (dataset entries only)
    stop    ['exhaust'] | ['close', k] | ['drop', k] | ['throw', k]
    path    None | a consumption path of vlib/vias.py (dataset entries only)
    neighbour  other parallel datasets with other settings are alive meanwhile
    dual    a second iterator over the same dataset object, in lock step
    faults  {'src': {pos: kind}, 'fn': {pos: kind}}   kind: value|user|filter|base
    catch   None | 'true' | 'user' | 'tuple' | 'exception'
Events (thread, what, ...): pull i, start i, end i, deliver v, exhausted,
raised, close_call, close_return, thread_start, thread_exit.
"""
import gc
import sys
import collections

from . import detsched as D
from .common import import_lazy_dataset, stable_hash

ENTRIES = ('stp', 'lpm', 'pf1', 'pft', 'parmap', 'chain', 'chainmid', 'chainpar', 'parpf1')
POOL_ENTRIES = ('lpm', 'pft', 'parmap', 'chain', 'chainmid', 'chainpar', 'parpf1')


class UserExc(Exception):
    pass


class OtherUserExc(Exception):
    pass


class BaseExc(BaseException):
    pass


class Thrown(Exception):
    pass


_ENV = {}


def env(shim=True):
    """Import the library once, shim parallel_utils (unless the process runs
    the real-thread harness), compute traced files."""
    if _ENV:
        assert _ENV['shim'] == shim, 'one mode per process'
        return _ENV
    ld = import_lazy_dataset()
    from lazy_dataset import parallel_utils as pu
    from lazy_dataset import core
    if shim:
        D.install(pu)
    _ENV['shim'] = shim
    traced = {
        pu.__file__: None,
        core.__file__: ('PrefetchDataset.', 'ParMapDataset.', 'CatchExceptionDataset.__iter__'),
    }
    _ENV.update(ld=ld, pu=pu, core=core, traced=traced)
    return _ENV


def exc_for(kind, ld):
    return {'value': ValueError, 'user': UserExc, 'other': OtherUserExc,
            'filter': ld.core.FilterException, 'base': BaseExc,
            # user code that lets a StopIteration escape (next() on an
            # exhausted iterator): inside the pipeline's generators Python
            # turns it into a RuntimeError whose cause is that StopIteration
            'stop': StopIteration,
            # types that stages use for their own control flow
            'index': IndexError, 'key': KeyError}[kind]


def catch_arg(name, ld):
    if name is None:
        return None
    return {'true': True, 'user': UserExc, 'tuple': (UserExc, ld.core.FilterException),
            'exception': Exception,
            # "a specific type (or a list of types)"
            'list': [UserExc, ld.core.FilterException],
            # a base class together with one of its subclasses: IndexError
            # (a sibling of the subclass) is selected through the base class
            'hier': [LookupError, KeyError],
            'hier-tuple': (KeyError, LookupError, UserExc),
            # catching switched off explicitly
            'false': False}[name]


def caught(kind, catch, ld):
    """Is an exception of `kind` one of the selected types?"""
    if catch is None:
        return False
    sel = catch_arg(catch, ld)
    if sel is False:
        return False
    if sel is True:
        sel = ld.core.FilterException
    if isinstance(sel, list):
        sel = tuple(sel)
    return issubclass(exc_for(kind, ld), sel)


def fault_at(sc, pos):
    """(where, kind) of the first fault hit when example `pos` is evaluated."""
    f = sc.get('faults') or {}
    s = (f.get('src') or {}).get(str(pos), (f.get('src') or {}).get(pos))
    if s:
        return 'src', s
    s = (f.get('fn') or {}).get(str(pos), (f.get('fn') or {}).get(pos))
    if s:
        return 'fn', s
    return None


def expected(sc, ld):
    """(delivered values, kind of propagated exception or None, position)."""
    out = []
    key = sc.get('key')
    itf = (sc.get('faults') or {}).get('iter')
    if itf:
        return [], itf, 0
    for i in range(sc['n']):
        f = fault_at(sc, i)
        if f is not None:
            if caught(f[1], sc.get('catch'), ld):
                continue
            return out, f[1], i
        v = ('f', i)
        out.append((f'k{i}', v) if key else v)
    return out, None, None


class SchedWorld:
    """What a scenario body needs from its environment (controlled run)."""
    STOP = (D.Deadlock, D.Abort, D.StepLimit)

    def __init__(self, S):
        self.S = S
        self.ev = S.ev
        self.preempt = S.preempt

    def mark(self):
        return len(self.S.events)

    def quiesce(self):
        S = self.S
        # (not S.enabled(): that evaluates the predicate of 'main' as well,
        # which is this very predicate)
        S.block_until(lambda: not [t for t in S.threads
                                   if t.name != 'main' and not t.done
                                   and (t.pred is None or t.timed or t.pred())],
                      'quiesce')
        return [(t.name, t.desc) for t in S.threads if not t.done and t.name != 'main']


def _nb_fn(x):
    return x


def make_body(sc, e, raised_objs):
    ld, pu = e['ld'], e['pu']
    n, b, w = sc['n'], sc['b'], sc.get('w', 1)
    entry = sc['entry']
    stop = sc.get('stop') or ['exhaust']

    def body(S):
        ev = S.ev

        def maybe_raise(where, pos):
            f = (sc.get('faults') or {}).get(where) or {}
            kind = f.get(str(pos), f.get(pos))
            if kind:
                exc = exc_for(kind, ld)((where, pos))
                raised_objs.append(exc)
                raise exc

        def src_fn(x):
            S.preempt()
            ev('pull', x)
            maybe_raise('src', x)
            return x

        def fn(x):
            ev('start', x)
            S.preempt()
            maybe_raise('fn', x)
            S.preempt()
            ev('end', x)
            return ('f', x)

        def gen():
            for i in range(n):
                yield src_fn(i)

        def fgen():
            for i in range(n):
                yield fn(src_fn(i))
        catch = catch_arg(sc.get('catch'), ld)
        iter_fault = (sc.get('faults') or {}).get('iter')
        if iter_fault:
            # the input fails when iter() is called on it, before any example
            class BadIterable(ld.Dataset):
                def __iter__(self, with_key=False):
                    ev('iter_called')
                    exc = exc_for(iter_fault, ld)(('iter', 0))
                    raised_objs.append(exc)
                    raise exc

                def __len__(self):
                    return n

                def copy(self, freeze=False):
                    return self

                indexable = False
                ordered = True
            def _raises_at_first_next(exc):
                raise exc
                yield
            try:
                if entry == 'stp':
                    it = pu.single_thread_prefetch(BadIterable(), b)
                elif entry == 'lpm':
                    it = pu.lazy_parallel_map(fn, BadIterable(), buffer_size=b,
                                              max_workers=w, backend='t')
                elif entry == 'pf1':
                    it = iter(BadIterable().map(fn).prefetch(1, b))
                else:
                    it = iter(BadIterable().map(fn, num_workers=w, buffer_size=b))
            except S.STOP:
                raise
            except BaseException as exc:
                # a stage that asks its input for an iterator when iter() is
                # called on itself (not a generator function) surfaces the
                # failure one call earlier; for the consumer of a for loop
                # that is the same thing
                ev('raised_at_iter', type(exc).__name__)
                it = _raises_at_first_next(exc)
        elif entry == 'stp':
            it = pu.single_thread_prefetch(fgen(), b)
        elif entry == 'lpm':
            it = pu.lazy_parallel_map(fn, gen(), buffer_size=b, max_workers=w,
                                      backend='t')
        else:
            if sc.get('key'):
                base = ld.new({f'k{i}': i for i in range(n)})
            else:
                base = ld.new(list(range(n)))
            if sc.get('dupkeys'):
                # the same keys twice (keyed iteration is then refused or has to
                # work without listing the keys up front)
                base = base.concatenate(base)
            ds = base.map(src_fn)
            # the thread backend has two names ('t' and 'thread'); they mean
            # the same
            T = 't' if (n + b + w) % 2 else 'thread'
            try:
                if entry == 'pf1':
                    ds = ds.map(fn).prefetch(1, b, 't', catch) if n % 2 else \
                        ds.map(fn).prefetch(1, b, catch_filter_exception=catch)
                elif entry == 'pft':
                    ds = ds.map(fn).prefetch(w, b, T, catch) if n % 2 else \
                        ds.map(fn).prefetch(w, b, T, catch_filter_exception=catch)
                elif entry == 'parmap':
                    ds = ds.map(fn, num_workers=w, buffer_size=b, backend=T)
                elif entry == 'chain':
                    ds = ds.map(fn).prefetch(w, max(b, w), 't').prefetch(1, b)
                elif entry == 'chainmid':
                    # the mapped function sits BETWEEN two prefetching stages
                    ds = ds.prefetch(w, max(b, w), 't').map(fn).prefetch(1, b)
                elif entry == 'parpf1':
                    # a (catching) single-thread prefetch directly on top of
                    # a parallel map
                    ds = ds.map(fn, num_workers=w, buffer_size=max(b, w), backend=T).prefetch(
                        1, b, catch_filter_exception=catch)
                elif entry == 'chainpar':
                    # a single-thread prefetch FEEDING a parallel map: the
                    # pool stage consumes a live background iterator
                    ds = ds.prefetch(1, b).map(fn, num_workers=w, buffer_size=max(b, w),
                                               backend='t')
                else:
                    raise ValueError(entry)
                if sc.get('path'):
                    # consumed through a copy / below a lazy apply / inside the
                    # profiling wrapper (vlib/vias.py): every parameter of the
                    # prefetching stage has to survive that
                    from .vias import through
                    ds = through(ld, ds, sc['path'])
                if sc.get('neighbour'):
                    # other prefetching / parallel-mapping datasets with other
                    # settings are built AFTER the one under test and stay
                    # alive while it is iterated (settings kept per class or
                    # per module instead of per object would be theirs now)
                    nb = base.map(_nb_fn)
                    neighbours = [nb.prefetch(w + 2, b + 61, 't'),
                                  nb.map(_nb_fn, num_workers=w + 1, buffer_size=b + 40,
                                         backend='t'),
                                  nb.prefetch(1, b + 17),
                                  nb.prefetch(w + 1, b + 9, 't',
                                              catch_filter_exception=Exception)]
                    if sc['neighbour'] == 'active':
                        # consumed completely while the iterator under test is
                        # suspended: many hand-overs through small buffers
                        long_ = ld.new(list(range(400))).map(_nb_fn)
                        neighbours += [long_.prefetch(1, 1), long_.prefetch(1, 3),
                                       long_.prefetch(2, 2, 't')]
            except S.STOP:
                raise
            except BaseException as exc:
                if not sc.get('may_refuse'):
                    raise
                ev('build_refused', type(exc).__name__)
                return [], ('build-refused', exc), S.mark(), S.quiesce()
            try:
                ln = len(ds)
            except BaseException:
                ln = None
            ev('len', ln)
            it = iter(ds.items()) if sc.get('key') else iter(ds)
            if sc.get('dual'):
                # a second iterator over the SAME dataset object, consumed in
                # lock step with the first: nothing an iteration needs may be
                # kept on the dataset object
                it2 = iter(ds.items()) if sc.get('key') else iter(ds)
        delivered = []
        delivered2 = []
        outcome = None
        limit = n + 5 if stop[0] == 'exhaust' else stop[1]
        try:
            wait = sc.get('consumer_wait')
            for _ in range(limit):
                v = next(it)
                ev('deliver', v)
                delivered.append(v)
                if sc.get('dual'):
                    try:
                        delivered2.append(next(it2))
                        ev('deliver2', delivered2[-1])
                    except StopIteration:
                        ev('exhausted2')
                if sc.get('neighbour') == 'active' and len(delivered) == 1:
                    # with this iterator suspended after its first example,
                    # the neighbours (other prefetching datasets) are consumed
                    # completely: their hand-overs are none of its business
                    if wait:
                        import time
                        time.sleep(10 * wait)     # let the producer fill its buffer first
                    ev('neighbours_start')
                    for nbd in neighbours:
                        for _v in nbd:
                            pass
                    ev('neighbours_end')
                if sc.get('nested') and len(delivered) == 2:
                    # with this iterator suspended, the same dataset object is
                    # iterated completely, `nested` times (a validation pass,
                    # counting the examples ...), then the iterator goes on
                    ev('nested_start')
                    for _p in range(sc['nested']):
                        for v2 in (ds.items() if sc.get('key') else ds):
                            ev('deliver2', v2)
                    ev('nested_end')
                if wait:
                    import time
                    time.sleep(wait)      # real-thread harness: a slow consumer
            if stop[0] == 'exhaust':
                outcome = ('overrun', None)
        except StopIteration:
            ev('exhausted')
            outcome = ('exhausted', None)
            if sc.get('dual'):
                try:
                    delivered2.append(next(it2))
                    ev('deliver2', delivered2[-1])
                except StopIteration:
                    ev('exhausted2')
        except S.STOP:
            raise
        except BaseException as exc:
            ev('raised', type(exc).__name__)
            outcome = ('raised', exc)
        if outcome is None:
            ev('close_call')
            try:
                if stop[0] == 'close':
                    it.close()
                elif stop[0] == 'drop':
                    del it
                    gc.collect()
                elif stop[0] == 'throw':
                    try:
                        it.throw(Thrown('consumer'))
                    except Thrown:
                        pass
                    except StopIteration:
                        pass
            except S.STOP:
                raise
            except BaseException as exc:
                ev('close_raised', type(exc).__name__)
            outcome = ('stopped', None)
        if sc.get('dual'):
            del it2
            gc.collect()
        ev('close_return')
        mark = S.mark()
        # let every other thread run until it finishes or blocks for good
        alive = S.quiesce()
        return delivered, outcome, mark, alive
    return body


def run(sc, chooser, step_limit=200000):
    """Execute one scenario under the scheduler.  Returns a result dict."""
    e = env()
    raised_objs = []
    body_ = make_body(sc, e, raised_objs)

    def body(S):
        return body_(SchedWorld(S))

    res = {'deadlock': None, 'steplimit': False}
    try:
        delivered, outcome, mark, alive = D.run(chooser, e['traced'], body,
                                                step_limit=step_limit)
        res.update(delivered=delivered, outcome=outcome, mark=mark, alive=alive)
    except D.Deadlock as dl:
        res['deadlock'] = dl.args[0]
    except D.StepLimit:
        res['steplimit'] = True
    S = D.S
    res.update(events=list(S.events), nchoices=S.nchoices, nsteps=S.nsteps,
               shim_ops=dict(S.shim_ops), max_enabled=S.max_enabled,
               choices=[c[1] for c in S.choices], raised_objs=raised_objs)
    return res


def trace_hash(events):
    return stable_hash([(e[0], e[1]) + tuple(e[2:3]) for e in events])


# ------------------------------------------------------------- judges
def completion_order(events):
    return tuple(e[2] for e in events if e[1] == 'end')


def judge_transparent(sc, r, res, ld):
    """C04: same examples, same order, each evaluated exactly once."""
    case = {'scenario': sc, 'choices': r['choices'][:400]}
    sig = {'entry': sc['entry']}
    if r['steplimit']:
        return None
    if r['deadlock']:
        res.violation('iteration-never-completes', case,
                      {'blocked': r['deadlock'], 'events_tail': r['events'][-10:]},
                      sig=sig)
        return False
    want, _, _ = expected(sc, ld)
    if r['delivered'] != want or r['outcome'][0] != 'exhausted':
        res.violation('delivered-sequence-differs', case,
                      {'delivered': r['delivered'], 'want': want,
                       'outcome': r['outcome'][0]}, sig=sig)
        return False
    starts = [e[2] for e in r['events'] if e[1] == 'start']
    if sc.get('dual'):
        d2 = [e[2] for e in r['events'] if e[1] == 'deliver2']
        if d2 != want or not any(e[1] == 'exhausted2' for e in r['events']):
            res.violation('delivered-sequence-differs', case,
                          {'second_iterator_delivered': d2, 'want': want}, sig=sig)
            return False
        if sorted(starts) != sorted(list(range(sc['n'])) * 2):
            res.violation('not-evaluated-exactly-once', case,
                          {'starts': starts, 'iterators': 2}, sig=sig)
            return False
        return True
    if sorted(starts) != list(range(sc['n'])):
        res.violation('not-evaluated-exactly-once', case, {'starts': starts}, sig=sig)
        return False
    pulls = [e[2] for e in r['events'] if e[1] == 'pull']
    if sorted(pulls) != list(range(sc['n'])):
        res.violation('source-not-read-exactly-once', case, {'pulls': pulls}, sig=sig)
        return False
    lens = [e[2] for e in r['events'] if e[1] == 'len']
    if sc.get('path') and lens and lens[0] is None:
        lens = []          # a lazy apply offers no length
    if lens and lens[0] is not None and lens[0] != sc['n'] and not sc.get('catch'):
        res.violation('len-differs', case, {'len': lens[0]}, sig=sig)
        return False
    if lens and lens[0] is None and not sc.get('catch'):
        res.violation('len-missing', case, None, sig=sig)
        return False
    return True


def judge_termination(sc, r, res, directed=False):
    """C05: no deadlock, no live thread, no late user code, cancellation."""
    case = {'scenario': sc, 'choices': r['choices'][:400]}
    sig = {'entry': sc['entry'], 'stop': (sc.get('stop') or ['exhaust'])[0]}
    if r['steplimit']:
        return None
    if r['deadlock']:
        res.violation('deadlock', case, {'blocked': r['deadlock'],
                                         'events_tail': r['events'][-12:]}, sig=sig)
        return False
    if r['alive']:
        res.violation('thread-alive-after-control-returned', case,
                      {'alive': r['alive']}, sig=sig)
        return False
    late = [e for e in r['events'][r['mark']:] if e[1] in ('pull', 'start', 'end')]
    if late:
        res.violation('user-code-ran-after-control-returned', case,
                      {'late': late[:6]}, sig=sig)
        return False
    # (not for 'chain': there the pool's consumer is the outer prefetch worker,
    # which the policy does not prioritise)
    if directed and sc['entry'] in ('lpm', 'pft', 'parmap') \
            and sig['stop'] in ('close', 'drop'):
        evs = r['events']
        idx = next((i for i, e in enumerate(evs) if e[1] == 'close_call'), None)
        if idx is not None:
            # a task counts as started when a pool worker takes it off the work
            # queue (it may log its first user-code event later)
            taken_after = [e for e in evs[idx:] if e[1] == 'task_taken']
            res.count('directed_cancellation_checks')
            res.count('tasks_cancelled_observed',
                      sum(1 for e in evs[idx:] if e[1] == 'task_cancelled'))
            if taken_after:
                res.violation('task-started-after-consumer-stopped', case,
                              {'tasks_taken_after_close_call': len(taken_after),
                               'events_after_close_call': evs[idx:idx + 14]}, sig=sig)
                return False
    return True


def judge_errors(sc, r, res, ld):
    """C06: prefix, then the same exception; never truncated / reordered."""
    case = {'scenario': sc, 'choices': r['choices'][:400]}
    sig = {'entry': sc['entry'], 'catch': sc.get('catch')}
    if r['steplimit']:
        return None
    if r['deadlock']:
        res.violation('hang-on-error', case, {'blocked': r['deadlock']}, sig=sig)
        return False
    want, kind, pos = expected(sc, ld)
    where = None
    if pos is not None:
        where = 'iter' if (sc.get('faults') or {}).get('iter') else fault_at(sc, pos)[0]
    sig['where'] = where
    sig['exc'] = kind
    got = r['delivered']
    oc, exc = r['outcome']
    # lazy_parallel_map / ParMapDataset evaluate their *source* in the consumer
    # thread while earlier results are still buffered: a source failure is
    # raised as soon as it is pulled, before (at most buffer_size + 1) earlier
    # results - or an earlier failure among them - have been handed over
    srcf = {int(p): k for p, k in ((sc.get('faults') or {}).get('src') or {}).items()}
    # ('chainpar': the source of the parallel map is a prefetch iterator, a
    # failure that comes out of it is a source failure of the parallel map)
    consumer_side = sc['entry'] in ('lpm', 'parmap', 'chainpar', 'parpf1') and srcf
    relaxed = consumer_side and where == 'src'
    bsz = max(sc['b'], sc.get('w', 1)) if sc['entry'] in ('chainpar', 'parpf1') else sc['b']
    if consumer_side and oc == 'raised' and where != 'src':
        ahead = [(p, k) for p, k in sorted(srcf.items()) if pos < p <= pos + bsz + 1]
        for p, k in ahead:
            if isinstance(exc, exc_for(k, ld)) and exc.args == (('src', p),):
                res.count('source_fault_preempted_earlier_failure')
                if got == want[:len(got)] and any(exc is o for o in r['raised_objs']):
                    return True
    if kind is None:
        if got != want or oc != 'exhausted':
            res.violation('filtered-sequence-differs', case,
                          {'delivered': got, 'want': want, 'outcome': oc}, sig=sig)
            return False
        return True
    if oc != 'raised':
        res.violation('error-swallowed', case,
                      {'delivered': got, 'want_prefix': want, 'expected_exception': kind,
                       'outcome': oc}, sig=sig)
        return False
    if relaxed:
        ok = got == want[:len(got)]
        res.maximum('parmap_source_fault_withheld', len(want) - len(got))
    else:
        ok = got == want
    if not ok:
        res.violation('wrong-prefix-before-error', case,
                      {'delivered': got, 'want_prefix': want}, sig=sig)
        return False
    if kind == 'stop':
        inner = exc if isinstance(exc, StopIteration) else \
            (exc.__cause__ or exc.__context__ if isinstance(exc, RuntimeError) else None)
        if not (isinstance(inner, StopIteration) and any(inner is o for o in r['raised_objs'])):
            res.violation('other-exception-surfaced', case,
                          {'got': repr(exc), 'want': 'the StopIteration or a RuntimeError '
                           'caused by it'}, sig=sig)
            return False
        return True
    if not isinstance(exc, exc_for(kind, ld)) or exc.args != ((where, pos),):
        res.violation('other-exception-surfaced', case,
                      {'got': repr(exc), 'want': (kind, where, pos)}, sig=sig)
        return False
    if not any(exc is o for o in r['raised_objs']):
        res.violation('not-the-same-exception-object', case, {'got': repr(exc)}, sig=sig)
        return False
    return True


def readahead(sc, r):
    """Maximum of pulled - delivered and started - delivered over the log.
    With nested complete passes over the same object ('nested'), the maximum
    over the part of the log after the last of them: everything those passes
    pulled has been delivered by then, so what is outstanding belongs to the
    suspended iterator alone."""
    pulled = started = delivered = 0
    mp = ms = 0
    after = not sc.get('nested')
    for e in r['events']:
        if e[1] == 'nested_end':
            after = True
            mp = max(mp, pulled - delivered)
            ms = max(ms, started - delivered)
            continue
        if e[1] == 'deliver2':
            delivered += 1
            continue
        if not after:
            if e[1] == 'pull':
                pulled += 1
            elif e[1] == 'start':
                started += 1
            elif e[1] == 'deliver':
                delivered += 1
            continue
        if e[1] == 'pull':
            pulled += 1
            mp = max(mp, pulled - delivered)
        elif e[1] == 'start':
            started += 1
            ms = max(ms, started - delivered)
        elif e[1] == 'deliver':
            delivered += 1
    return mp, ms


def judge_readahead(sc, r, res, inflight=0):
    """C07: pulled - delivered <= b + 2, started - delivered <= b.
    inflight: under real threads an example may have been handed over but not
    yet logged as delivered; the excess is reduced by that much (can miss by
    one, never raises a false alarm)."""
    case = {'scenario': sc, 'choices': r['choices'][:400]}
    sig = {'entry': sc['entry']}
    if r['deadlock'] or r['steplimit']:
        return None
    mp, ms = readahead(sc, r)
    mp, ms = mp - inflight, ms - inflight
    b = sc['b']
    key = f"{sc['entry']}:b{b}:w{sc.get('w', 1)}"
    res.maximum(f'pulled_minus_delivered:{key}', mp)
    if sc['entry'] != 'stp':
        res.maximum(f'started_minus_delivered:{key}', ms)
    if sc['entry'] in ('chain', 'chainmid', 'chainpar', 'parpf1'):
        # two buffering stages in a row: the bounds add up
        lim_p = (max(b, sc.get('w', 1)) + 2) + (b + 2)
        lim_s = max(b, sc.get('w', 1)) + (b + 2)
    elif sc['entry'] in ('stp', 'pf1'):
        lim_p, lim_s = b + 2, b + 2       # the function runs inside the pulled stream
    else:
        lim_p, lim_s = b + 2, b
    if mp > lim_p:
        res.violation('read-ahead-exceeds-buffer', case,
                      {'pulled_minus_delivered': mp, 'limit': lim_p}, sig=sig)
        return False
    if ms > lim_s:
        res.violation('started-ahead-exceeds-buffer', case,
                      {'started_minus_delivered': ms, 'limit': lim_s}, sig=sig)
        return False
    return True
