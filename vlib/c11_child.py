"""Child process for the C11 crash-point monitor.

  python -m vlib.c11_child <dir> <n> fill    fill the disk cache, acknowledge
                                              each completed access on stdout
  python -m vlib.c11_child <dir> <n> read    reopen with reuse=True, read all,
                                              report values and upstream calls
"""
import sys
import json
import time


def payload(i):
    # every third example is larger than diskcache's 32 KiB inline limit and is
    # therefore written as a separate file before its row is committed
    if i % 7 == 1:
        return None           # falsy / None examples are legitimate values
    if i % 7 == 5:
        return 0
    if i % 7 == 4:
        return ''
    size = 9000 if i % 3 == 0 else 3 + i % 5
    return {'id': i, 'payload': [i] * size, 'text': f'example-{i}'}


def main(argv):
    d, n, mode = argv[0], int(argv[1]), argv[2]
    from vlib.common import import_lazy_dataset
    ld = import_lazy_dataset()
    calls = []

    def m(x):
        calls.append(x)
        return payload(x)
    clear = mode == 'fill-then-clear'
    ds = ld.new(list(range(n))).map(m).diskcache(cache_dir=d, reuse=True, clear=clear)
    out = sys.stdout
    if mode == 'fill-then-clear':
        for i in range(n):
            ds[i]
        out.write('clearing\n')
        out.flush()
        del ds                      # last holder released: the directory is removed
        import gc
        gc.collect()
        out.write('cleared\n')
        out.flush()
        time.sleep(30)
    elif mode == 'fill':
        out.write('ready\n')
        out.flush()
        order = list(range(n))
        for i in order:
            ds[i]
            out.write(f'ack {i}\n')
            out.flush()
        out.write('done\n')
        out.flush()
        time.sleep(30)
    else:
        vals = []
        err = None
        try:
            for i in range(n):
                vals.append(ds[i])
        except BaseException as e:      # a corrupt store would show up here
            err = f'{type(e).__name__}: {e}'
        ok = err is None and all(v == payload(i) for i, v in enumerate(vals))
        wrong = [i for i, v in enumerate(vals) if v != payload(i)]
        out.write('RESULT ' + json.dumps(
            {'ok': ok, 'wrong': wrong, 'err': err, 'calls': sorted(calls)}) + '\n')
        out.flush()


if __name__ == '__main__':
    main(sys.argv[1:])
