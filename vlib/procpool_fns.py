"""Picklable-by-reference user function and exception for the process-pool
cases (must live in an importable module, not in __main__)."""
import os
import time


class UserExc(Exception):
    pass


class ProcFn:
    def __init__(self, path, delays, faults):
        self.path = path
        self.delays = delays
        self.faults = faults

    def log(self, what, i):
        fd = os.open(self.path, os.O_WRONLY | os.O_APPEND | os.O_CREAT)
        try:
            os.write(fd, f'{what} {i} {time.monotonic():.6f} {os.getpid()}\n'.encode())
        finally:
            os.close(fd)

    def __call__(self, x):
        self.log('start', x)
        time.sleep(self.delays[x % len(self.delays)])
        kind = self.faults.get(str(x))
        if kind == 'value':
            raise ValueError(('fn', x))
        if kind == 'user':
            raise UserExc(('fn', x))
        if kind == 'filter':
            from lazy_dataset.core import FilterException
            raise FilterException(('fn', x))
        self.log('end', x)
        return ('f', x)




class Lookup:
    """k -> other[k] (a join by key executed in the workers)."""

    def __init__(self, other):
        self.other = other

    def __call__(self, k):
        return self.other[k]
