"""Textual mutants per property: (name, [(file, old, new), ...]).
Each is a realistic slip that still imports and that the pinned suite does not
necessarily notice; `./verif selftest Cxx` expects the quick check to fire."""
C = 'lazy_dataset/core.py'
P = 'lazy_dataset/parallel_utils.py'
D = 'lazy_dataset/database.py'

MUTANTS = {
 'C12': [
  ('local-pop-without-remove', [(C, "yield buffer.pop(int(self.rng.choice(self.buffer_size)))",
                                   "yield buffer[int(self.rng.choice(self.buffer_size))]; buffer.pop(0)")]),
  ('final-shuffle-with-replacement', [(C, "        self.rng.shuffle(buffer)\n        for element in buffer:\n            yield element",
                                          "        for _ in range(len(buffer)):\n            yield buffer[int(self.rng.choice(len(buffer)))]")]),
  ('once-shuffle-randint', [(C, "            permutation = np.arange(len(self))\n            rng.shuffle(permutation)",
                                "            permutation = np.arange(len(self))\n            rng.shuffle(permutation)\n            if len(permutation) > 2: permutation[0] = permutation[-1]")]),
  ('random-choice-ignores-replace', [(C, "i = rng_state.choice(len(self), size=size, replace=replace)",
                                         "i = rng_state.choice(len(self), size=size, replace=True)")]),
  ('local-buffer-one-larger', [(C, "            if len(buffer) >= self.buffer_size:\n                yield buffer.pop(int(self.rng.choice(self.buffer_size)))", "            if len(buffer) > self.buffer_size:\n                yield buffer.pop(int(self.rng.choice(len(buffer))))")]),
 ],
 'C13': [
  ('reshuffle-copy-drops-rng', [(C, "                input_dataset=self.input_dataset.copy(freeze=freeze),\n                rng=self.rng,\n", "                input_dataset=self.input_dataset.copy(freeze=freeze),\n")]),
  ('local-copy-drops-rng', [(C, "            buffer_size=self.buffer_size,\n            rng=self.rng,\n", "            buffer_size=self.buffer_size,\n")]),
  ('batch-copy-drops-drop_last', [(C, "            batch_size=self.batch_size,\n            drop_last=self.drop_last,\n", "            batch_size=self.batch_size,\n")]),
  ('catch-copy-drops-warn', [(C, "            exceptions=self.exceptions,\n            warn=self.warn,\n", "            exceptions=self.exceptions,\n")]),
  ('prefetch-copy-drops-catch', [(C, "            backend=self.backend,\n            catch_filter_exception=self.catch_filter_exception,\n        )", "            backend=self.backend,\n        )")]),
  ('bucket-copy-drops-reverse', [(C, "            sort_key=self.sort_key,\n            reverse_sort=self.reverse_sort,\n            **self.bucket_kwargs", "            sort_key=self.sort_key,\n            **self.bucket_kwargs")]),
  ('reshuffle-reports-ordered', [(C, "    def ordered(self) -> bool:\n        return False\n\n    def __len__(self):\n        return len(self.input_dataset)\n\n    # keys is not well defined", "    def ordered(self) -> bool:\n        return self.input_dataset.ordered\n\n    def __len__(self):\n        return len(self.input_dataset)\n\n    # keys is not well defined")]),
  ('freeze-returns-unfrozen', [(C, "        if freeze:\n            return self.input_dataset.copy(freeze=freeze)[self.permutation]\n        else:", "        if False:\n            pass\n        else:")]),
  ('freeze-uses-global-rng', [(C, "return self.input_dataset.copy(freeze=freeze)[self.permutation]", "return self.input_dataset.copy(freeze=freeze)[np.random.permutation(len(self))]")]),
 ],
 'C15': [
  ('sections-gt-len-accepts-equal', [(C, "if sections > len(self):", "if sections > len(self) + 1:")]),
  ('shard-negative-count-via-abs', [(C, "        if sections < 1:\n            raise ValueError(\"sections must be >= 1\")", "        sections = abs(sections)\n        if sections < 1:\n            raise ValueError(\"sections must be >= 1\")")]),
  ('shard-index-off', [(C, "return self.split(num_shards)[shard_index]", "return self.split(num_shards)[shard_index - 1 if shard_index == num_shards - 1 and num_shards > 3 else shard_index]")]),
  ('split-unbalanced', [(C, "slices = np.array_split(np.arange(len(self)), sections)", "slices = np.split(np.arange(len(self)), np.arange(1, sections) * (len(self) // sections))")]),
 ],
}

MUTANTS['C18'] = [
  ('sort-compares-examples-on-ties', [(C, "zip(sort_values, itertools.count()),", "zip(sort_values, self),")]),
  ('keyed-sort-drops-reverse', [(C, "                    zip(sort_values, itertools.count()),\n                    reverse=reverse,\n", "                    zip(sort_values, itertools.count()),\n")]),
  ('keyless-sort-drops-reverse', [(C, "sort_order = sort_fn(keys, reverse=reverse)", "sort_order = sort_fn(keys)")]),
  ('groupby-loses-nonadjacent', [(C, "            groups[k] += indices", "            groups[k] = indices")]),
  ('groupby-sorted-indices-desc', [(C, "            groups[k] += indices", "            groups[k] = indices + groups[k]")]),
  ('sort-index-from-one', [(C, "                index\n                for _, index in sort_fn(", "                (index + 1) % max(len(sort_values), 1) if len(sort_values) > 4 else index\n                for _, index in sort_fn(")]),
]

MUTANTS['C14'] = [
  ('catch-list-of-types-not-converted', [(C, "        if isinstance(exceptions, list):\n", "        if False:\n")]),
  ('batch-takes-user-indexerror-as-end', [(C, "                    if in_range:\n                        # Not the end of the input: the IndexError stems\n                        # from the evaluation of the example.\n                        raise\n                    break", "                    break")]),
  ('catch-except-exception', [(C, "                try:\n                    yield input_dataset[i]\n                except self.exceptions as e:", "                try:\n                    yield input_dataset[i]\n                except Exception as e:")]),
  ('catch-key-branch-except-exception', [(C, "                    yield k, input_dataset[k]\n                except self.exceptions as e:", "                    yield k, input_dataset[k]\n                except Exception as e:")]),
  ('catch-skips-last-index', [(C, "            for i in range(len(input_dataset)):\n                total_count += 1\n                try:\n                    yield input_dataset[i]", "            for i in range(len(input_dataset) - (1 if len(input_dataset) > 3 else 0)):\n                total_count += 1\n                try:\n                    yield input_dataset[i]")]),
  ('eager-filter-negated-on-empty-tail', [(C, "idx = [i for i, e in enumerate(self) if filter_fn(e)]", "idx = [i for i, e in enumerate(self) if filter_fn(e) or i == 5]")]),
  ('lazy-filter-key-of-previous', [(C, "            for key, example in self.input_dataset.__iter__(with_key=True):\n                total_count += 1\n", "            hist = [None]\n            for key, example in self.input_dataset.__iter__(with_key=True):\n                total_count += 1\n                hist.append(key)\n"), (C, "                    yield key, example\n", "                    yield (hist[-2] if total_count > 4 else key), example\n")]),
  ('catch-yields-after-exception', [(C, "                except self.exceptions as e:\n                    catched_count += 1\n                    if self.warn:\n                        msg = repr(e)\n                        LOG.warning(msg)\n        else:", "                except self.exceptions as e:\n                    catched_count += 1\n                    if catched_count == 3:\n                        return\n                    if self.warn:\n                        msg = repr(e)\n                        LOG.warning(msg)\n        else:")]),
]

MUTANTS['C17'] = [
  ('buffered-count-after-the-yield', [(C, "                buffered_count -= len(data)\n                yield data\n                buckets.pop(j)", "                yield data\n                buffered_count -= len(data)\n                buckets.pop(j)")]),
  ('assess-ignores-total-size', [(C, "            and ((len(self.data) + 1) * max(self.max_len, seq_len)\n                 > self.max_total_size)", "            and False")]),
  ('expiry-off-by-one', [(C, "if (i - creation_idx) >= self.expiration:", "if (i - creation_idx) > self.expiration:")]),
  ('buffer-limit-off-by-one', [(C, "while buffered_count > self.max_buffered_examples:", "while buffered_count > self.max_buffered_examples + 1:")]),
  ('drop-branch-forgets-buffered-count', [(C, "                        else:\n                            dropped_count += len(data)\n                        buffered_count -= len(data)\n                        buckets.pop(j)", "                        else:\n                            dropped_count += len(data)\n                            buffered_count += len(data)\n                        buffered_count -= len(data)\n                        buckets.pop(j)")]),
  ('completed-ge-to-gt', [(C, "        return len(self.data) >= self.batch_size\n", "        return len(self.data) > self.batch_size\n")]),
  ('lower-bound-uses-min', [(C, "        self.lower_bound = max(\n            self.lower_bound, seq_len * (1 - self.max_padding_rate)", "        self.lower_bound = min(\n            self.lower_bound, seq_len * (1 - self.max_padding_rate)")]),
  ('final-flush-skips-last-bucket', [(C, "        for bucket, _ in buckets:\n            data = bucket.data", "        for bucket, _ in buckets[:-1] if len(buckets) > 2 else buckets:\n            data = bucket.data")]),
  ('completed-pop-stale-index', [(C, "                buffered_count -= len(data)\n                buckets.pop(j)\n", "                buffered_count -= len(data)\n                buckets.pop(0 if len(buckets) > 2 else j)\n")]),
  ('drop-mode-emits-expired', [(C, "                        data = bucket.data\n                        if not self.drop_incomplete:", "                        data = bucket.data\n                        if not self.drop_incomplete or len(data) > 2:")]),
]

MUTANTS['C19'] = [
  ('merge-alias-without-setdefault', [(D, "result.setdefault('alias', {}).update(database_dict['alias'])", "result['alias'].update(database_dict['alias'])")]),
  ('merge-copy-method', [(D, "k1: copy.copy(v1)", "k1: v1.copy()")]),
  ('examples-updated-in-place', [(D, "            examples[example_id] = {\n                **examples[example_id],\n                'example_id': example_id,\n                'dataset': dataset_name,\n            }", "            examples[example_id].update(example_id=example_id, dataset=dataset_name)")]),
  ('merge-without-copy', [(D, "    result = {\n        k1: copy.copy(v1)\n        for k1, v1 in database_dicts[0].items()\n    }", "    result = dict(database_dicts[0])")]),
  ('memo-not-used', [(D, "            return self._dataset_weak_ref_dict[name]\n", "            return self._dataset_weak_ref_dict[name + '#']\n")]),
  ('dataset-duplicate-assert-dropped', [(D, "        assert not duplicate_keys, (\n            f'Found duplicate dataset names in databases! {duplicate_keys}'\n        )", "        pass")]),
  ('alias-duplicate-assert-dropped', [(D, "            assert not duplicate_keys, (\n                f'Found duplicate alias names in databases! '\n                f'{duplicate_keys}'\n            )", "            pass")]),
  ('alias-overlap-assert-dropped', [(D, "                    assert len(intersection) == 0, intersection", "                    pass")]),
  ('reduce-without-data', [(D, "return JsonDatabase, (self._json_path,), {'_data': self._data}", "return JsonDatabase, (self._json_path,)")]),
  ('alias-dataset-name-is-member', [(D, "                'dataset': dataset_name,\n", "                'dataset': dataset_name if dataset_name not in self.alias else self.alias[dataset_name][0],\n")]),
  ('alias-members-sorted', [(D, "                dataset_names = self.alias[dataset_name]\n", "                dataset_names = sorted(self.alias[dataset_name])\n")]),
]

MUTANTS['C09'] = [
  ('from_list-not-serialising', [(C, "    examples = list(map(serialize, examples))\n    return ListDataset(examples, name=name).map(deserialize)", "    examples = list(examples)\n    return ListDataset(examples, name=name)")]),
  ('copy-mode-deserialize-identity', [(C, "        return lambda x: x, deepcopy", "        return lambda x: x, (lambda x: x)")]),
  ('cachewrapper-stores-object', [(C, "        self.cache[key] = self._serialize(value)", "        self.cache[key] = value"), (C, "        return self._deserialize(self.cache[item])", "        return self.cache[item]")]),
  ('cache-returns-stored-after-first-hit', [(C, "    def __getitem__(self, item):\n        return self._deserialize(self.cache[item])", "    def __getitem__(self, item):\n        v = self.cache[item]\n        if isinstance(v, bytes):\n            v = self.cache[item] = self._deserialize(v)\n        return v")]),
  ('wu-list-caches-results', [(C, "        bytes = memoryview(self._lst[start_addr:end_addr])\n        return pickle.loads(bytes)", "        if not hasattr(self, '_memo'):\n            self._memo = {}\n        if idx not in self._memo:\n            self._memo[idx] = pickle.loads(memoryview(self._lst[start_addr:end_addr]))\n        return self._memo[idx]")]),
  ('from_dict-shares-values-for-copy-of-copy', [(C, "    examples = {k: serialize(v) for k, v in examples.items()}\n    return DictDataset(examples, name=name).map(deserialize)", "    examples = {k: serialize(v) for k, v in examples.items()}\n    return DictDataset(examples, name=name).map(deserialize if immutable_warranty == 'pickle' else (lambda x: dict(x)))")]),
]

MUTANTS['C10'] = [
  ('stop-caching-decision-per-copy', [(C, "        if not self._cache.do_cache:\n            return False\n", "        if not getattr(self, '_do_cache', True):\n            return False\n"), (C, "            self._cache.do_cache = False\n            return False", "            self._do_cache = False\n            return False")]),
  ('memory-polled-again-after-the-threshold', [(C, "        if not self._cache.do_cache:\n            return False\n", "")]),
  ('cache-store-shared-by-all-caches', [(C, "class _CacheWrapper:\n    def __init__(self, immutable_warranty: str = 'pickle'):\n        self._serialize, self._deserialize = _get_serialize_and_deserialize(\n            immutable_warranty)\n        self.cache = {}\n", "class _CacheWrapper:\n    cache = {}\n\n    def __init__(self, immutable_warranty: str = 'pickle'):\n        self._serialize, self._deserialize = _get_serialize_and_deserialize(\n            immutable_warranty)\n")]),
  ('cache-keyed-by-raw-negative-index', [(C, "                item = item + len(self)\n                if item < 0:\n                    raise IndexError(_item)\n            try:\n                return self._cache[item]", "                if item + len(self) < 0:\n                    raise IndexError(_item)\n            try:\n                return self._cache[item]")]),
  ('copy-creates-new-cachewrapper', [(C, "        copy._cache = self._cache\n        copy._keep_mem_free = self._keep_mem_free", "        copy._cache = _CacheWrapper()\n        copy._keep_mem_free = self._keep_mem_free")]),
  ('key-path-caches-under-key-string', [(C, "        if isinstance(item, str):\n            item = self.keys().index(item)\n\n        if isinstance(item, numbers.Integral):\n            # numpy integers", "        if isinstance(item, str):\n            if item not in self._cache:\n                value = self.input_dataset[item]\n                if self.check():\n                    self._cache[item] = value\n                return value\n            return self._cache[item]\n\n        if isinstance(item, numbers.Integral):\n            # numpy integers")]),
  ('check-ignores-memory', [(C, "        if psutil.virtual_memory().available <= self._keep_mem_free:", "        if psutil.virtual_memory().available <= 0:")]),
  ('latch-caches-every-other', [(C, "        if not self._do_cache:\n            return False\n", "        if not self._do_cache:\n            self._do_cache = True\n            return True\n")]),
  ('store-before-compute-stale', [(C, "                value = self.input_dataset[item]\n                if self.check():\n                    self._cache[item] = value\n                return value", "                value = self.input_dataset[item]\n                if self.check():\n                    self._cache[item] = value\n                    return self.input_dataset[item] if item == 2 else value\n                return value")]),
  ('eager-cache-returns-self', [(C, "            return new(self)\n", "            return self if self.indexable else new(self)\n")]),
  ('iter-recomputes-instead-of-cache', [(C, "        else:\n            for i in range(len(self)):\n                yield self[i]\n\n    def __len__(self):\n        return len(self.input_dataset)\n\n    def copy(self, freeze: bool = False) -> 'Dataset':\n        if not freeze:\n            import warnings\n            warnings.warn(\n                'Copying a CacheDataset preserves the cache, i.e., the '\n                'already cached part of the dataset will be frozen even if '\n                'freeze=False!'\n            )\n        # We have to share the cache here because otherwise a new cache would\n        # be initialized at every copy and copy is called by prefetch before\n        # iterating over the dataset\n        copy = self.__class__.__new__(self.__class__)\n        copy.input_dataset = self.input_dataset.copy(freeze)\n        copy._cache = self._cache\n        copy._keep_mem_free", "        else:\n            for i in range(len(self)):\n                yield self[i] if i in self._cache or i % 2 else self.input_dataset[i]\n\n    def __len__(self):\n        return len(self.input_dataset)\n\n    def copy(self, freeze: bool = False) -> 'Dataset':\n        if not freeze:\n            import warnings\n            warnings.warn(\n                'Copying a CacheDataset preserves the cache, i.e., the '\n                'already cached part of the dataset will be frozen even if '\n                'freeze=False!'\n            )\n        # We have to share the cache here because otherwise a new cache would\n        # be initialized at every copy and copy is called by prefetch before\n        # iterating over the dataset\n        copy = self.__class__.__new__(self.__class__)\n        copy.input_dataset = self.input_dataset.copy(freeze)\n        copy._cache = self._cache\n        copy._keep_mem_free")]),
]

MUTANTS['C11'] = [
  ('reuse-check-dropped', [(C, "            if reuse:\n                LOG.info(f'Cache dir \"{cache_dir}\" already exists. Re-using stored data.')\n            else:", "            if True:\n                LOG.info(f'Cache dir \"{cache_dir}\" already exists. Re-using stored data.')\n            else:")]),
  ('del-clears-regardless', [(C, "            self.cache.close()\n            if self.clear:", "            self.cache.close()\n            if True:")]),
  ('del-never-clears', [(C, "            self.cache.close()\n            if self.clear:", "            self.cache.close()\n            if self.clear and not self.reuse:")]),
  ('diskcopy-second-wrapper', [(C, "        copy.input_dataset = self.input_dataset.copy(freeze)\n        copy._cache = self._cache\n        return copy", "        copy.input_dataset = self.input_dataset.copy(freeze)\n        copy._cache = _DiskCacheWrapper(self._cache.cache.directory, True, self._cache.clear)\n        return copy")]),
  ('numpy-index-own-entry', [(C, "            # disk cache, which serializes the key).\n            item = int(item)\n", "            # disk cache, which serializes the key).\n            pass\n")]),
  ('key-path-stored-as-str', [(C, "        if isinstance(item, str):\n            item = self.keys().index(item)\n\n        if isinstance(item, numbers.Integral):\n            # numpy", "        if isinstance(item, str):\n            k = 'key:' + item\n            if k in self._cache:\n                return self._cache[k]\n            value = self.input_dataset[item]\n            self._cache[k] = value\n            return value\n\n        if isinstance(item, numbers.Integral):\n            # numpy")]),
  ('reuse-wipes-directory', [(C, "        self.cache = diskcache.Cache(cache_dir, eviction_policy='none')", "        self.cache = diskcache.Cache(cache_dir, eviction_policy='none')\n        if reuse and clear:\n            self.cache.clear()")]),
]

MUTANTS['C01'] = [
  ('wu-empty-list-refused', [(C, "        if len(self._lst) == 0:\n", "        if False:\n")]),
  ('batch-iter-input-iterator-on-the-object', [(C, "        current_batch = list()\n        for element in self.input_dataset:\n            current_batch.append(element)\n            if len(current_batch) >= self.batch_size:", "        current_batch = list()\n        self._it = iter(self.input_dataset)\n        while True:\n            try:\n                element = next(self._it)\n            except StopIteration:\n                break\n            current_batch.append(element)\n            if len(current_batch) >= self.batch_size:")]),
  ('prefetch-none-as-end-marker', [(P, "    unique_object = object()\n    exc_info = None\n", "    unique_object = None\n    exc_info = None\n")]),
  ('unbatch-skips-falsy-examples', [(C, "            for example in batch:\n                yield example", "            for example in batch:\n                if example or example == 0:\n                    yield example")]),
  ('slice-keys-memo-on-class', [(C, "            self._keys = operator.itemgetter(*self.slice)(keys)", "            type(self)._keys = operator.itemgetter(*self.slice)(keys)")]),
  ('batch-copy-drops-drop_last', [(C, "            batch_size=self.batch_size,\n            drop_last=self.drop_last,\n", "            batch_size=self.batch_size,\n")]),
  ('batch-iter-gt', [(C, "            if len(current_batch) >= self.batch_size:\n                yield current_batch", "            if len(current_batch) > self.batch_size:\n                yield current_batch")]),
  ('concat-iter-skips-empty-first-wrongly', [(C, "        for input_dataset in self.input_datasets:\n            if with_key:\n                iterable = input_dataset.__iter__(with_key=True)", "        for input_dataset in self.input_datasets[(1 if len(self.input_datasets) > 1 and len(self.input_datasets[0]) == 1 else 0):]:\n            if with_key:\n                iterable = input_dataset.__iter__(with_key=True)")]),
  ('intersperse-order-key', [(C, "((example_index + 1) / ds_len, dataset_index, example_index)", "(example_index / ds_len, dataset_index, example_index)")]),
  ('cache-iter-range-minus-one', [(C, "        else:\n            for i in range(len(self)):\n                yield self[i]\n\n    def __len__(self):\n        return len(self.input_dataset)\n\n    def copy(self, freeze: bool = False) -> 'Dataset':\n        if not freeze:\n            import warnings\n            warnings.warn(\n                'Copying a CacheDataset", "        else:\n            for i in range(len(self) - (1 if len(self) > 4 else 0)):\n                yield self[i]\n\n    def __len__(self):\n        return len(self.input_dataset)\n\n    def copy(self, freeze: bool = False) -> 'Dataset':\n        if not freeze:\n            import warnings\n            warnings.warn(\n                'Copying a CacheDataset")]),
  ('tile-shuffle-last-rep-unshuffled', [(C, "            datasets = [\n                ds.shuffle()\n                for ds in datasets\n            ]", "            datasets = [\n                ds.shuffle()\n                for ds in datasets[:-1]\n            ] + datasets[-1:]")]),
  ('unbatch-drops-empty-tail', [(C, "            for example in batch:\n                yield example", "            for example in batch[:2] if len(batch) == 3 else batch:\n                yield example")]),
  ('slice-copy-reslices', [(C, "        new._slice = self._slice\n        new.slice = self.slice\n        return new", "        new._slice = self._slice\n        new.slice = self.slice[::-1] if len(self.slice) == 3 else self.slice\n        return new")]),
  ('zip-iter-truncates', [(C, "        for examples in zip(*self.input_datasets):\n            yield examples", "        for examples in zip(*[list(d)[:4] for d in self.input_datasets]):\n            yield examples")]),
  ('keyzip-iter-second-by-position', [(C, "        else:\n            for key in self.keys():\n                yield tuple([\n                    ds[key]\n                    for ds in self.input_datasets\n                ])", "        else:\n            for i, key in enumerate(self.keys()):\n                yield tuple([\n                    ds[key] if j == 0 else ds[i]\n                    for j, ds in enumerate(self.input_datasets)\n                ])")]),
  ('filter-second-iteration-consumes', [(C, "            for example in self.input_dataset:\n                total_count += 1\n                if self.filter_function(example):\n                    yield example", "            self._n = getattr(self, '_n', 0) + 1\n            for example in self.input_dataset:\n                total_count += 1\n                if self.filter_function(example) and not (self._n % 3 == 0 and total_count == 2):\n                    yield example")]),
]
MUTANTS['C02'] = [
  ('batch-getitem-batch-size-numpy-arithmetic', [(C, "            input_index = item * int(self.batch_size)", "            input_index = item * self.batch_size")]),
  ('batch-getitem-narrow-int-arithmetic', [(C, "            # around in `item * self.batch_size`.\n            item = int(item)\n", "            # around in `item * self.batch_size`.\n")]),
  ('concat-getitem-narrow-int-arithmetic', [(C, "            # arithmetic below.\n            item = int(item)\n", "            # arithmetic below.\n")]),
  ('concat-getitem-lt', [(C, "                if len(dataset) <= item:\n                    item -= len(dataset)", "                if len(dataset) < item:\n                    item -= len(dataset)")]),
  ('concat-getitem-no-second-negative-check', [(C, "                item = item + len(self)\n                if item < 0:\n                    # Without this check", "                item = item + len(self)\n                if False:\n                    # Without this check")]),
  ('batch-len-floor', [(C, "        return int(np.ceil(length))", "        return int(np.floor(length)) if len(self.input_dataset) > 4 else int(np.ceil(length))")]),
  ('batch-getitem-no-reraise-at-0', [(C, "                    if i == 0 or self.drop_last:\n                        raise", "                    if self.drop_last:\n                        raise")]),
  ('items-getitem-key-off', [(C, "            return self.keys()[item], self.input_dataset[item]", "            return self.keys()[item - 1 if item == 2 else item], self.input_dataset[item]")]),
  ('reshuffle-len-off', [(C, "    def __len__(self):\n        return len(self.input_dataset)\n\n    # keys is not well defined", "    def __len__(self):\n        return len(self.input_dataset) + 1\n\n    # keys is not well defined")]),
  ('intersperse-negative-index', [(C, "            _, dataset_idx, example_idx = self.order[item]", "            _, dataset_idx, example_idx = self.order[abs(item)]")]),
  ('slice-oob-wraps', [(C, "            return self.input_dataset[self.slice[item]]", "            return self.input_dataset[self.slice[item % len(self.slice)] if len(self.slice) else self.slice[item]]")]),
  ('prefetch-len-ignores-input', [(C, "        else:\n            return len(self.input_dataset)\n\n    def __iter__(self, with_key=False):\n        if self.num_workers == 1", "        else:\n            return len(self.input_dataset) + (1 if self.buffer_size == 1 else 0)\n\n    def __iter__(self, with_key=False):\n        if self.num_workers == 1")]),
  ('wu-negative-index', [(C, "            idx += len(self)\n            if idx < 0:\n                raise IndexError(idx - len(self))", "            pass")]),
]
MUTANTS['C03'] = [
  ('slice-keys-no-single-special-case', [(C, "            if len(self.slice) == 1:\n                self._keys = (self._keys,)\n        return self._keys", "        return self._keys")]),
  ('map-items-unmapped', [(C, "            for k, v in self.input_dataset.__iter__(with_key=True):\n                yield k, self.map_function(v)", "            for k, v in self.input_dataset.__iter__(with_key=True):\n                yield k, v")]),
  ('concat-str-lookup-skips-keys-check', [(C, "            self.keys()  # test unique keys\n            for dataset in self.input_datasets:\n                if item in dataset.keys():\n                    return dataset[item]\n            # In collections.ChainMap is", "            for dataset in self.input_datasets:\n                if item in dataset.keys():\n                    return dataset[item]\n            return self.input_datasets[0][0]\n            # In collections.ChainMap is")]),
  ('intersperse-keys-sorted-without-dataset-index', [(C, "                ds_keys[dataset_idx][example_idx]\n                for _, dataset_idx, example_idx in self.order", "                ds_keys[dataset_idx][example_idx]\n                for _, example_idx, dataset_idx in sorted((o, e, d) for o, d, e in self.order)")]),
  ('slice-foreign-key-forwarded', [(C, "            if item not in self._key_set:", "            if False:")]),
  ('intersperse-absent-returns-none', [(C, "                    return dataset[item]\n            raise KeyErrorCloseMatches(item, self.keys())\n        else:\n            return super().__getitem__(item)\n\n\nclass ZipDataset", "                    return dataset[item]\n        else:\n            return super().__getitem__(item)\n\n\nclass ZipDataset")]),
  ('prefetch1-items-bare', [(C, "            yield from self._single_thread_prefetch(with_key=with_key)", "            yield from self._single_thread_prefetch()")]),
  ('empty-slice-keys-typeerror', [(C, "            if len(self.slice) == 0:\n                # itemgetter() needs at least one index\n                self._keys = ()\n                return self._keys\n", "")]),
  ('cache-items-keys-shifted', [(C, "            for i in range(len(self)):\n                yield keys[i], self[i]", "            for i in range(len(self)):\n                yield keys[i - 1 if i == 3 else i], self[i]")]),
  ('keyzip-keys-of-second', [(C, "            self._keys = self.input_datasets[0].keys()", "            self._keys = self.input_datasets[-1].keys()")]),
]


def _pick(prop, *names):
    return [m for m in MUTANTS[prop] if m[0] in names]


MUTANTS['C16'] = (
    _pick('C01', 'batch-iter-gt', 'unbatch-drops-empty-tail',
          'slice-copy-reslices', 'cache-iter-range-minus-one')
    + _pick('C02', 'concat-getitem-lt', 'batch-len-floor', 'batch-getitem-no-reraise-at-0',
            'slice-oob-wraps')
    + _pick('C03', 'map-items-unmapped', 'slice-keys-no-single-special-case')
    + [
  ('map-getitem-skips-function-for-negative', [(C, "        if isinstance(item, (str, numbers.Integral)):\n            return self.map_function(self.input_dataset[item])", "        if isinstance(item, (str, numbers.Integral)):\n            if not isinstance(item, str) and item < -1:\n                return self.input_dataset[item]\n            return self.map_function(self.input_dataset[item])")]),
  ('tile-one-rep-less-for-three', [(C, "        datasets = [self] * reps\n", "        datasets = [self] * (reps if reps != 3 else 2)\n")]),
  ('split-last-part-drops-one', [(C, "        return [self[s] for s in slices]", "        return [self[s] for s in slices[:-1]] + [self[slices[-1][:-1] if len(slices) == 3 and len(slices[-1]) > 1 else slices[-1]]]")]),
  ('eager-filter-off', [(C, "idx = [i for i, e in enumerate(self) if filter_fn(e)]", "idx = [i for i, e in enumerate(self) if filter_fn(e) or i == 3]")]),
])

# Mutants the law monitor C16 is known NOT to see (both sides of every law share
# the defect, or no law mentions the operation); the model-based C01/C03 do:
#   C01 intersperse-order-key, C03 slice-foreign-key-forwarded

MUTANTS['C08'] = [
  ('from-dataset-starts-over-after-a-late-refusal', [(C, "        if items and examples.indexable:", "        if False:")]),
  ('map-iter-eager-list', [(C, "            for v in self.input_dataset:\n                yield self.map_function(v)\n\n    def keys(self):", "            yield from [self.map_function(x) for x in self.input_dataset]\n\n    def keys(self):")]),
  ('filter-predicate-twice', [(C, "            for example in self.input_dataset:\n                total_count += 1\n                if self.filter_function(example):\n                    yield example", "            for example in self.input_dataset:\n                total_count += 1\n                if self.filter_function(example) and self.filter_function(example):\n                    yield example")]),
  ('batch-getitem-fetches-whole-input', [(C, "            input_index = item * int(self.batch_size)\n            current_batch = []", "            input_index = item * int(self.batch_size)\n            _all = list(self.input_dataset)\n            current_batch = []")]),
  ('slice-iter-iterates-input-and-skips', [(C, "        else:\n            for idx in self.slice:\n                yield self.input_dataset[idx]", "        else:\n            _all = list(self.input_dataset)\n            for idx in self.slice:\n                yield _all[idx]")]),
  ('concat-len-by-listing', [(C, "        return sum([len(i) for i in self.input_datasets])", "        return sum([len(list(i)) for i in self.input_datasets])")]),
  ('shuffle-touches-examples', [(C, "            permutation = np.arange(len(self))\n            rng.shuffle(permutation)", "            permutation = np.arange(len(list(self)))\n            rng.shuffle(permutation)")]),
  ('local-style-readahead-in-batch', [(C, "        current_batch = list()\n        for element in self.input_dataset:\n            current_batch.append(element)\n            if len(current_batch) >= self.batch_size:\n                yield current_batch\n                current_batch = list()", "        current_batch = list()\n        pending = None\n        for element in self.input_dataset:\n            current_batch.append(element)\n            if len(current_batch) >= self.batch_size:\n                if pending is not None:\n                    yield pending\n                pending = current_batch\n                current_batch = list()\n        if pending is not None:\n            yield pending")]),
  ('cache-computes-neighbour', [(C, "                value = self.input_dataset[item]\n                if self.check():", "                value = self.input_dataset[item]\n                if item + 1 < len(self):\n                    self.input_dataset[item + 1]\n                if self.check():")]),
  ('zip-getitem-evaluates-all-first', [(C, "            return tuple([\n                ds[item] for ds in self.input_datasets\n            ])", "            [ds[0] for ds in self.input_datasets]\n            return tuple([\n                ds[item] for ds in self.input_datasets\n            ])")]),
  ('prefetch1-buffer-plus-three', [(C, "        return single_thread_prefetch(input_dataset, self.buffer_size)", "        return single_thread_prefetch(input_dataset, self.buffer_size + 3)")]),
  ('items-getitem-via-iteration', [(C, "            return self.keys()[item], self.input_dataset[item]", "            return list(self)[item]")]),
]

MUTANTS['C20'] = [
  ('getitem-forwards-selections-to-input', [(C, "        if not isinstance(item, (str, numbers.Integral)):\n            # A selection (slice, index list, ...), e.g. from the frozen copy", "        if False:\n            # A selection (slice, index list, ...), e.g. from the frozen copy")]),
  ('count-without-stopiteration-correction', [(C, "            except StopIteration:\n                self.hit_count[0] -= 1\n                return", "            except StopIteration:\n                return")]),
  ('copy-not-sharing-counters', [(C, "        new.time = self.time\n        new.hit_count = self.hit_count\n        return new", "        new.time = self.time\n        new.hit_count = list(self.hit_count)\n        return new")]),
  ('wraps-input_datasets-but-not-input_dataset', [(C, "        if hasattr(input_dataset, 'input_dataset'):\n            input_dataset.input_dataset = ProfilingDataset(\n                input_dataset.input_dataset)", "        if hasattr(input_dataset, 'input_dataset') and False:\n            input_dataset.input_dataset = ProfilingDataset(\n                input_dataset.input_dataset)")]),
  ('init-wraps-original-not-copy', [(C, "        input_dataset = input_dataset.copy()\n\n        # use list with one element as mutable container to share the timer", "        input_dataset = input_dataset\n\n        # use list with one element as mutable container to share the timer")]),
  ('getitem-swallows-indexerror', [(C, "        self.hit_count[0] += 1\n        try:\n            return self.input_dataset[item]\n        except Exception:\n            self.hit_count[1] += 1\n            raise", "        self.hit_count[0] += 1\n        try:\n            return self.input_dataset[item]\n        except IndexError:\n            self.hit_count[1] += 1\n            return self.input_dataset[-1]\n        except Exception:\n            self.hit_count[1] += 1\n            raise")]),
  ('failed-not-counted', [(C, "            except Exception:\n                self.hit_count[1] += 1\n                raise\n            finally:\n                end = self.timestamp()\n                self.time[0] += (end - start)\n            yield x", "            except Exception:\n                raise\n            finally:\n                end = self.timestamp()\n                self.time[0] += (end - start)\n            yield x")]),
  ('len-off-by-one-when-profiled', [(C, "    def __len__(self):\n        return len(self.input_dataset)\n\n    def indexable(self):", "    def __len__(self):\n        return len(self.input_dataset) + (1 if self.hit_count[0] > 6 else 0)\n\n    def indexable(self):")]),
  ('keyed-iteration-refused', [(C, "        if with_key:\n            it = self.input_dataset.__iter__(with_key=True)\n        else:\n            it = iter(self.input_dataset)", "        if with_key:\n            raise _ItemsNotDefined(self.__class__.__name__)\n        it = iter(self.input_dataset)")]),
  ('getitem-counts-twice', [(C, "        # Avoid context manager: https://stackoverflow.com/a/26156031/5766934\n        self.hit_count[0] += 1", "        # Avoid context manager: https://stackoverflow.com/a/26156031/5766934\n        self.hit_count[0] += 1 + (item == 0)")]),
]

MUTANTS['C04'] = [
  ('pickled-disk-cache-copy-owns-the-directory', [(C, "        state = self.__dict__.copy()\n        state['clear'] = False\n        return state", "        state = self.__dict__.copy()\n        return state")]),
  ('lpm-takes-newest-future', [(P, "                if q.qsize() >= buffer_size:\n                    yield result(q.get())", "                if q.qsize() >= buffer_size:\n                    _all = [q.get() for _ in range(q.qsize())]\n                    yield result(_all.pop())\n                    for _f in _all:\n                        q.put(_f)")]),
  ('lpm-yields-completed-first', [(P, "            while not q.empty():\n                yield result(q.get())", "            _rest = [q.get() for _ in range(q.qsize())]\n            _rest.sort(key=lambda f: not f.done())\n            for _f in _rest:\n                yield result(_f)")]),
  ('lpm-drops-last', [(P, "            while not q.empty():\n                yield result(q.get())", "            while q.qsize() > 1:\n                yield result(q.get())")]),
  ('prefetch-iter-range-minus-one', [(C, "            iterable = range(len(self.input_dataset))", "            iterable = range(len(self.input_dataset) - (1 if len(self.input_dataset) > 2 else 0))")]),
  ('stp-sentinel-when-queue-full-skipped', [(P, "            if not shutdown:\n                # This is not necessary", "            if not shutdown and not data_queue.full():\n                # This is not necessary")]),
  ('stp-worker-skips-after-racy-check', [(P, "                data_queue.put(item)\n                if shutdown:\n                    return", "                if data_queue.qsize() == buffer_size and buffer_size > 1:\n                    continue\n                data_queue.put(item)\n                if shutdown:\n                    return")]),
  ('parmap-key-iteration-unmapped', [(C, "        key, ex = key_ex\n        ex = func(ex)\n        return key, ex", "        key, ex = key_ex\n        return key, func(ex) if key != 'k1' else ex")]),
  ('prefetch-len-with-workers', [(C, "        else:\n            return len(self.input_dataset)\n\n    def __iter__(self, with_key=False):\n        if self.num_workers == 1", "        else:\n            return len(self.input_dataset) - (self.num_workers > 1)\n\n    def __iter__(self, with_key=False):\n        if self.num_workers == 1")]),
]

MUTANTS['C05'] = [
  ('keyed-parmap-passes-a-running-iterator', [(C, "                _KeyedIterable(self.input_dataset),", "                self.input_dataset.__iter__(with_key=True),")]),
  ('map-iter-keeps-input-iterator-in-a-local', [(C, "            for v in self.input_dataset:\n                yield self.map_function(v)\n\n    def keys(self):", "            iterator = iter(self.input_dataset)\n            for v in iterator:\n                yield self.map_function(v)\n\n    def keys(self):")]),
  ('stp-sentinel-guard-removed', [(P, "            if not shutdown:\n                # This is not necessary", "            if True:\n                # This is not necessary")]),
  ('stp-drain-loop-removed', [(P, "            while True:\n                data_queue.get_nowait()", "            pass")]),
  ('stp-shutdown-flag-after-drain', [(P, "        shutdown = True\n        try:\n            # Handle a break of the iteration.", "        try:\n            # Handle a break of the iteration."), (P, "        except queue.Empty:\n            pass\n        thread.join()", "        except queue.Empty:\n            pass\n        shutdown = True\n        thread.join()")]),
  ('stp-join-removed', [(P, "        except queue.Empty:\n            pass\n        thread.join()", "        except queue.Empty:\n            pass")]),
  ('lpm-terminate-removed', [(P, "            terminate(executor, q)\n            raise", "            raise")]),
  ('lpm-except-generatorexit-narrowed', [(P, "        except GeneratorExit:\n            # A GeneratorExit will not stop", "        except KeyboardInterrupt:\n            # A GeneratorExit will not stop")]),
  ('lpm-cancel-only-first', [(P, "            try:\n                while True:\n                    q.get(block=False).cancel()\n            except queue.Empty:\n                pass\n\n    elif backend is False:", "            try:\n                q.get(block=False).cancel()\n            except queue.Empty:\n                pass\n\n    elif backend is False:")]),
  ('mp-pool-left-in-the-pathos-cache', [(P, "            ex = PathosPool(max_workers,\n                            id=('lazy_dataset', next(_PATHOS_POOL_IDS)))\n            try:\n                yield ex\n            finally:\n                ex.clear()", "            ex = PathosPool(max_workers)\n            yield ex"), (P, "            ex.join()\n            ex.clear()\n", "")]),
  ('mp-iterations-share-the-cached-pathos-pool', [(P, "            ex = PathosPool(max_workers,\n                            id=('lazy_dataset', next(_PATHOS_POOL_IDS)))", "            ex = PathosPool(max_workers)")]),
]

MUTANTS['C06'] = [
  ('prefetch-catch-list-not-converted', [(C, "        if isinstance(catch_filter_exception, list):\n", "        if False:\n")]),
  ('map-iter-yield-from-builtin-map', [(C, "            for v in self.input_dataset:\n                yield self.map_function(v)\n\n    def keys(self):", "            yield from map(self.map_function, self.input_dataset)\n\n    def keys(self):")]),
  ('stp-exc-info-reraise-removed', [(P, "    if exc_info is not None:\n        raise exc_info[1].with_traceback(exc_info[2])", "    if exc_info is not None and False:\n        raise exc_info[1].with_traceback(exc_info[2])")]),
  ('stp-catches-only-exception', [(P, "        except BaseException:\n            # Save the exception and reraise it in the main thread", "        except Exception:\n            # Save the exception and reraise it in the main thread")]),
  ('catcher-catches-exception', [(C, "                    try:\n                        return input_dataset[index]\n                    except catch_filter_exception:", "                    try:\n                        return input_dataset[index]\n                    except Exception:")]),
  ('marker-compared-by-equality-with-none', [(C, "                if isinstance(data, _FilteredExample):", "                if isinstance(data, _FilteredExample) or data == ('f', 1):")]),
  ('single-thread-path-not-wrapped-in-catch', [(C, "            input_dataset = CatchExceptionDataset(\n                self.input_dataset,\n                exceptions=exceptions,\n            )", "            input_dataset = self.input_dataset")]),
  ('marker-by-identity-again', [(C, "                if isinstance(data, _FilteredExample):", "                if data is unique_object:")]),
  ('lpm-result-swallows-valueerror', [(P, "        def result(job: concurrent.futures.Future):\n            return job.result()", "        def result(job: concurrent.futures.Future):\n            try:\n                return job.result()\n            except ValueError:\n                return None")]),
  ('stp-error-drops-queued-items', [(P, "            nonlocal exc_info\n            # https://stackoverflow.com/a/1854263/5766934\n            exc_info = sys.exc_info()", "            nonlocal exc_info\n            # https://stackoverflow.com/a/1854263/5766934\n            exc_info = sys.exc_info()\n            try:\n                data_queue.get_nowait()\n            except queue.Empty:\n                pass")]),
]

MUTANTS['C07'] = [
  ('stp-queue-unbounded', [(P, "    data_queue = queue.Queue(buffer_size)", "    data_queue = queue.Queue()")]),
  ('stp-queue-plus-two', [(P, "    data_queue = queue.Queue(buffer_size)", "    data_queue = queue.Queue(buffer_size + 2)")]),
  ('lpm-buffer-gt', [(P, "                if q.qsize() >= buffer_size:", "                if q.qsize() > buffer_size:")]),
  ('lpm-submit-before-size-check', [(P, "                if q.qsize() >= buffer_size:\n                    yield result(q.get())\n                q.put(submit(executor, function, ele, *args, **kwargs))", "                q.put(submit(executor, function, ele, *args, **kwargs))\n                if q.qsize() > buffer_size:\n                    yield result(q.get())")]),
  ('prefetch-passes-len-as-buffer', [(C, "            yield from lazy_parallel_map(\n                function,\n                iterable,\n                buffer_size=self.buffer_size,", "            yield from lazy_parallel_map(\n                function,\n                iterable,\n                buffer_size=max(len(self), self.buffer_size),")]),
  ('parmap-ignores-buffer-size', [(C, "            return lazy_parallel_map(\n                self.map_function,\n                self.input_dataset,\n                buffer_size=self.buffer_size,", "            return lazy_parallel_map(\n                self.map_function,\n                self.input_dataset,\n                buffer_size=self.buffer_size * 2,")]),
]

# C07: mutants that make the read-ahead *smaller* (Queue(buffer_size - 1),
# q.qsize() >= buffer_size - 1) do not violate the statement; the check ends
# INCONCLUSIVE (exit 2, "the workload did not reach the bound"), which is how an
# off-by-one in the harmless direction shows up.
