"""Scenario spaces and exploration loops shared by the concurrency monitors
C04 - C07 (controlled scheduler part)."""
import random
import collections

from . import conc, detsched as D
from .common import rng_for, stable_hash


def configs(nmax, bmax, wmax=2, entries=conc.ENTRIES):
    """(entry, n, b, w) combinations; pool prefetch needs w >= 2 (w == 1 with
    the thread backend is the single-thread fallback), buffer >= workers."""
    out = []
    for entry in entries:
        for n in range(0, nmax + 1):
            for b in range(1, bmax + 1):
                ws = (1,) if entry in ('stp', 'pf1') else \
                    tuple(range(2, wmax + 1)) if entry in ('pft', 'chain', 'chainmid', 'chainpar', 'parpf1') else \
                    tuple(range(1, wmax + 1))
                for w in ws:
                    if b < w:
                        continue
                    out.append((entry, n, b, w))
    return out


def make(entry, n, b, w, **kw):
    sc = {'entry': entry, 'n': n, 'b': b, 'w': w, 'stop': ['exhaust']}
    sc.update(kw)
    return sc


CHOOSERS = ('random', 'sticky', 'pct', 'youngest', 'starve')


def chooser_for(name, rng):
    if name == 'random':
        return D.random_chooser(rng)
    if name == 'sticky':
        return D.sticky_random_chooser(rng)
    if name == 'pct':
        return D.pct_chooser(rng, depth=rng.choice((1, 2, 3)),
                             horizon=rng.choice((30, 100, 300)))
    if name == 'youngest':
        return D.youngest_first_chooser(rng)
    if name == 'starve':
        return D.starve_consumer_chooser(rng)
    if name == 'consumer-first':
        return D.consumer_first_after('close_call', rng)
    raise ValueError(name)


def explore_random(sc, nruns, rng, on_run, choosers=CHOOSERS):
    for i in range(nruns):
        name = choosers[i % len(choosers)]
        seed = rng.randrange(1 << 30)
        r = conc.run(sc, chooser_for(name, random.Random(seed)))
        r['policy'] = (name, seed)
        on_run(sc, r)


def explore_dfs(sc, bound, max_runs, on_run):
    dfs = D.DFS(bound, max_runs=max_runs)

    def once(ch):
        return conc.run(sc, ch)
    for r in dfs.explore(once):
        r['policy'] = ('dfs', bound)
        on_run(sc, r)
    return dfs


def note(res, sc, r):
    """Evidence common to all four monitors."""
    res.count('executions')
    res.count('choice_points', r['nchoices'])
    res.count('shim_operations', sum(r['shim_ops'].values()))
    res.seen('traces', conc.trace_hash(r['events']))
    if r['max_enabled'] >= 2:
        res.count('executions_with_2+_enabled_threads')
    co = conc.completion_order(r['events'])
    if list(co) != sorted(co):
        res.count('executions_with_out_of_order_completion')
    res.seen(f"completion_orders:{sc['entry']}", co)
    res.maximum('max_enabled_threads', r['max_enabled'])
    if not res.samples and r['max_enabled'] >= 2 and len(r['events']) >= 12:
        # one real execution per shard, written out: who did what in which order
        res.sample({'scenario': sc, 'schedule_policy': r.get('policy'),
                    'choices_at_the_first_choice_points': r['choices'][:40],
                    'event_trace (thread, event, arg)': [list(e) for e in r['events'][:48]]},
                   force=True)
    if r['steplimit']:
        res.inconclusive_because(f'step limit hit in {sc!r}')


def finalize_common(res):
    if res.counters.get('shim_operations', 0) == 0:
        res.inconclusive_because('no shim operation: the code bypassed the '
                                 'controlled primitives')
    if res.counters.get('executions_with_2+_enabled_threads', 0) == 0:
        res.inconclusive_because('no execution ever had two enabled threads')
    return {'distinct_event_traces': len(res.sets.get('traces', ())),
            'schedules_run': res.counters.get('executions', 0)}
