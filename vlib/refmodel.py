"""Eager reference interpreter ("what the README says each combinator does") for
pipeline programs, on plain Python lists of (key, value) pairs.  It never
imports lazy_dataset.

Besides the values it propagates capabilities of the result:
    finite     iteration ends
    sized      len() is offered
    indexable  integer indexing is offered
    listable   keys() is offered              (claim only if labels are unique)
    items      items() iteration is offered
    bykey      ds[key] is offered             (claim only if labels are unique)
    copyable   copy() is offered
Every entry carries its key label (or None) whether or not the stage can list
keys.  The table is used in one direction only: model says supported and the
library refuses -> violation; model says unsupported -> the library must refuse
loudly, or, if it does produce values, that is merely recorded.
"""
from fractions import Fraction

import numpy as np

from .terms import sid, scripted_perm


class Unsupported(Exception):
    """The documented semantics do not cover this composition: the library is
    expected to refuse (or may add the capability)."""


class Skip(Exception):
    """The program is not meaningful for the oracle (ties in a sort key, an
    eager pass over an infinite dataset, ...): do not run it at all."""


CAPS = ('finite', 'sized', 'indexable', 'listable', 'items', 'bykey', 'copyable',
        'ordered', 'keysok')


def is_poisoned(v):
    """Does the term contain an example whose evaluation raises (a 'mapguard'
    stage marked it)?"""
    if isinstance(v, tuple) and len(v) == 2 and v[0] == 'POISON':
        return True
    if isinstance(v, (list, tuple)):
        return any(is_poisoned(x) for x in v)
    return False


# operations that evaluate examples (user functions on them, or the examples
# themselves) - when they are built or whenever they are iterated - and after
# which no selection can leave an example out again
EVALUATING = ('filter', 'efilter', 'sort', 'groupby', 'ecache', 'catchfilter', 'catch',
              'catchprefetch',
              'prefetch1', 'prefetcht', 'parmap', 'unbatch', 'cycle', 'apply_lazy',
              'reshuffle', 'localshuffle', 'mapfail')


class M:
    def __init__(self, entries, finite=True, sized=True, indexable=True,
                 listable=False, items=False, bykey=False, copyable=True,
                 batched=False, ordered=True, keysok=True):
        self.entries = entries        # list of (key | None, value)
        self.finite = finite
        self.sized = sized
        self.indexable = indexable
        self.listable = listable
        self.items = items
        self.bykey = bykey
        self.copyable = copyable
        self.batched = batched
        self.ordered = ordered
        self.keysok = keysok      # False below a stage whose keys() raises (duplicates)

    def clone(self, **kw):
        m = M(list(self.entries), self.finite, self.sized, self.indexable,
              self.listable, self.items, self.bykey, self.copyable, self.batched,
              self.ordered, self.keysok)
        if hasattr(self, 'findexable'):
            m.findexable = self.findexable
        for k, v in kw.items():
            setattr(m, k, v)
        return m

    @property
    def values(self):
        return [v for _, v in self.entries]

    @property
    def labels(self):
        return [k for k, _ in self.entries]

    @property
    def labelstate(self):
        ls = self.labels
        if any(k is None for k in ls):
            return 'none'
        return 'unique' if len(set(ls)) == len(ls) else 'dup'

    @property
    def n(self):
        return len(self.entries)

    @property
    def poisoned(self):
        return any(is_poisoned(v) for v in self.values)

    def caps(self):
        d = {c: getattr(self, c) for c in CAPS}
        d['labels'] = self.labelstate
        return d

    def drop_labels(self, entries=None):
        e = self.entries if entries is None else entries
        return [(None, v) for _, v in e]


def source(spec):
    kind, n = spec[0], spec[1]
    prefix = spec[3] if len(spec) > 3 else 'k'
    off = spec[4] if len(spec) > 4 else 0
    order = spec[5] if len(spec) > 5 else 'fwd'
    idx = list(range(n)) if order == 'fwd' else list(range(n - 1, -1, -1))
    if kind == 'dict':
        return M([(f'{prefix}{i}', off + i) for i in idx], listable=True,
                 items=True, bykey=True)
    return M([(None, off + i) for i in idx])


def resolve_index_form(form, n):
    if form == 'empty':
        return []
    if form == 'first-first-last':
        if n < 1:
            raise Skip
        return [0, 0, -1]
    if form == 'rev':
        return list(range(n - 1, -1, -1))
    if form == 'mid':
        if n < 1:
            raise Skip
        return [n // 2]
    if form == 'neg-all':
        return [-1 - i for i in range(n)]
    if form == 'evens':
        return list(range(0, n, 2))
    raise ValueError(form)


def resolve_key_form(form, labels):
    n = len(labels)
    if n < 1:
        raise Skip
    if form == 'first':
        return [labels[0]]
    if form == 'last-first':
        return [labels[-1], labels[0]]
    if form == 'all-rev':
        return list(reversed(labels))
    raise ValueError(form)


def intersperse_order(lengths):
    return sorted(
        (Fraction(ei + 1, ln), di, ei)
        for di, ln in enumerate(lengths) for ei in range(ln))


def batches(seq, k, drop_last):
    out = [seq[i:i + k] for i in range(0, len(seq), k)]
    if drop_last and out and len(out[-1]) < k:
        out.pop()
    return out


def sort_key(v):
    return (7 * sid(v)) % 211


def _need(cond, why):
    if not cond:
        raise Unsupported(why)


def _apply_op(m, op, operand=None):
    k = op[0]
    if k in ('reshuffle', 'localshuffle'):
        # per-epoch random order: only used by monitors that compare two real,
        # equally seeded pipelines; the order is not modelled
        if not m.finite:
            raise Skip
        if k == 'reshuffle':
            _need(m.indexable and m.sized, 'reshuffle needs len and indexing')
        else:
            _need(m.sized, 'local shuffle offers len of its input')
        return m.clone(indexable=False, listable=False,
                       items=m.items and (m.listable or k == 'localshuffle'),
                       ordered=False)
    if k == 'mapfail':
        # a map whose function raises for some ids; only used by monitors that
        # compare two real pipelines (the values of failing ids are not modelled)
        return m.clone(entries=[(a, ('r', v)) for a, v in m.entries], batched=False)
    if k in ('map', 'parmap', 'apply_eager'):
        return m.clone(entries=[(a, (op[1], v)) for a, v in m.entries], batched=False)
    if k == 'filter':
        mod = op[1]
        if not m.finite and not any(sid(v) % mod != 0 for v in m.values):
            raise Skip        # an endless stream with no survivor never yields
        return m.clone(entries=[(a, v) for a, v in m.entries if sid(v) % mod != 0],
                       sized=False, indexable=False, listable=False)
    if k == 'efilter':
        if not m.finite:
            raise Skip
        _need(m.indexable and m.sized, 'eager filter needs an indexable input')
        mod = op[1]
        return m.clone(entries=[(a, v) for a, v in m.entries if sid(v) % mod != 0],
                       items=m.items and m.listable, bykey=m.bykey and m.listable)
    if k == 'slice':
        _need(m.indexable and m.sized and m.finite,
              'slicing needs an indexable, sized input')
        kind, payload = op[1], op[2]
        if kind == 'slice':
            ent = m.entries[slice(*payload)]
        elif kind in ('list', 'tuple') or kind.startswith('ndarray'):
            ent = [m.entries[i] for i in resolve_index_form(payload, m.n)]
        elif kind in ('keylist', 'keytuple'):
            _need(m.listable and m.labelstate == 'unique',
                  'key selection needs unique listed keys')
            d = dict(m.entries)
            ent = [(kk, d[kk]) for kk in resolve_key_form(payload, m.labels)]
        else:
            raise ValueError(op)
        new = m.clone(entries=ent, items=m.items and m.listable)
        new.bykey = m.bykey and m.listable and new.labelstate == 'unique'
        return new
    if k in ('concat3', 'concat_aba'):
        # ds.concatenate(mid, last): two extra parts (the middle one is empty)
        return apply(apply(m, ('concat', None), operand[0]), ('concat', None), operand[1])
    if k in ('intersperse3', 'intersperse_aba'):
        a_, b_ = operand
        _need(m.sized and m.finite, 'intersperse needs sized inputs')
        _need(m.n > 0, 'intersperse needs non-empty inputs')
        parts = [m, a_, b_]
        order = intersperse_order([p.n for p in parts])
        ent = [parts[di].entries[ei] for _, di, ei in order]
        new = M(ent, indexable=all(p.indexable for p in parts),
                listable=all(p.listable for p in parts),
                items=all(p.items for p in parts),
                copyable=all(p.copyable for p in parts),
                ordered=all(p.ordered for p in parts),
                keysok=all(p.keysok for p in parts))
        if new.labelstate == 'dup':
            new.listable = False
            new.keysok = False
        new.bykey = all(p.bykey for p in parts) and new.listable \
            and new.labelstate == 'unique'
        return new
    if k == 'zip3':
        a_, b_ = operand
        _need(m.sized and m.finite, 'zip needs sized inputs')
        _need(m.n == a_.n == b_.n, 'zip needs equal lengths')
        return M([(None, (x[1], y[1], z[1])) for x, y, z in
                  zip(m.entries, a_.entries, b_.entries)],
                 indexable=m.indexable and a_.indexable and b_.indexable,
                 copyable=m.copyable)
    if k == 'key_zip3':
        a_, b_ = operand
        _need(m.finite, 'key_zip over infinite data')
        _need(m.listable and m.labelstate == 'unique' and m.bykey,
              'key_zip needs unique listed keys')
        _need(set(m.labels) == set(a_.labels) == set(b_.labels),
              'key_zip needs equal key sets')
        da, db = dict(a_.entries), dict(b_.entries)
        return M([(k_, (v, da[k_], db[k_])) for k_, v in m.entries],
                 indexable=m.indexable and a_.indexable and b_.indexable,
                 listable=True, items=True, bykey=True, copyable=m.copyable)
    if k == 'groupby':
        if not m.finite:
            raise Skip
        _need(m.indexable and m.sized, 'groupby selects by index')
        mod, pick = op[1], op[2]
        ent = [(a, v) for a, v in m.entries if sid(v) % mod == pick]
        if not ent:
            raise Skip              # no such group
        return m.clone(entries=ent, items=m.items and m.listable,
                       bykey=m.bykey and m.listable)
    if k in ('concat', 'intersperse'):
        o = operand
        if k == 'intersperse':
            _need(m.sized and o.sized and m.finite and o.finite,
                  'intersperse needs sized inputs')
            _need(m.n > 0 and o.n > 0, 'intersperse needs non-empty inputs')
            order = intersperse_order([m.n, o.n])
            ent = [(m.entries if di == 0 else o.entries)[ei] for _, di, ei in order]
        elif not m.finite:
            ent = list(m.entries)          # the second part is never reached
        else:
            ent = m.entries + o.entries
        new = M(ent, finite=m.finite and o.finite, sized=m.sized and o.sized,
                indexable=m.indexable and o.indexable,
                listable=m.listable and o.listable,
                items=m.items and o.items,
                copyable=m.copyable and o.copyable,
                ordered=m.ordered and o.ordered,
                keysok=m.keysok and o.keysok)
        if new.labelstate == 'dup':
            # keys() of the combination raises: nothing downstream that needs
            # keys() is claimed
            new.listable = False
            new.keysok = False
        new.bykey = (m.bykey and o.bykey and new.listable
                     and new.labelstate == 'unique')
        return new
    if k == 'zip':
        o = operand
        _need(m.sized and o.sized and m.finite and o.finite, 'zip needs sized inputs')
        _need(m.n == o.n, 'zip needs equal lengths')
        return M([(None, (a[1], b[1])) for a, b in zip(m.entries, o.entries)],
                 indexable=m.indexable and o.indexable,
                 copyable=m.copyable and o.copyable,
                 ordered=m.ordered and o.ordered)
    if k == 'single':
        # a combining function / method called with ONE dataset: zip gives
        # 1-tuples, concatenate and intersperse give the dataset itself, key_zip
        # is refused
        what = op[1]
        if what == 'key_zip':
            raise Unsupported('key_zip needs at least two datasets')
        if what == 'zip':
            _need(m.sized and m.finite, 'zip needs sized inputs')
            return M([(None, (v,)) for _, v in m.entries], indexable=m.indexable,
                     copyable=m.copyable, ordered=m.ordered)
        return m.clone()
    if k == 'key_zip':
        o = operand
        _need(m.finite and o.finite, 'key_zip over infinite data')
        _need(m.listable and o.listable and m.labelstate == 'unique'
              and o.labelstate == 'unique', 'key_zip needs unique listed keys')
        _need(set(m.labels) == set(o.labels), 'key_zip needs equal key sets')
        _need(m.bykey and o.bykey, 'key_zip needs key lookup')
        d = dict(o.entries)
        return M([(a, (v, d[a])) for a, v in m.entries],
                 indexable=m.indexable and o.indexable, listable=True, items=True,
                 bykey=True, copyable=m.copyable and o.copyable)
    if k == 'batch':
        if not m.finite:
            raise Skip
        b = batches(m.values, op[1], op[2])
        return m.clone(entries=[(None, x) for x in b], listable=False, items=False,
                       bykey=False, batched=True)
    if k == 'unbatch':
        if not m.batched:
            raise Skip
        return m.clone(entries=[(None, x) for v in m.values for x in v],
                       sized=False, indexable=False, batched=False)
    if k == 'batch_map':
        if not m.batched:
            raise Skip
        return m.clone(entries=[(a, [(op[1], x) for x in v]) for a, v in m.entries])
    if k == 'items':
        _need(m.items and m.labelstate != 'none', 'items() needs keys on every input')
        # integer indexing of items() looks the key up in keys(), which needs
        # unique listed keys
        return m.clone(entries=[(a, (a, v)) for a, v in m.entries], batched=False,
                       bykey=m.bykey and m.listable,
                       indexable=m.indexable and m.listable
                       and m.labelstate == 'unique')
    if k == 'tile':
        r = op[1]
        if r == 1:
            return m.clone()
        if not m.finite:
            raise Skip
        new = m.clone(entries=m.entries * r)
        if new.labelstate == 'dup':
            new.listable = False
            new.keysok = False
        new.bykey = m.bykey and new.labelstate == 'unique'
        return new
    if k == 'tile_shuffle':
        r, seed = op[1], op[2]
        _need(m.indexable and m.sized and m.finite,
              'shuffle needs an indexable sized input')
        rs = np.random.RandomState(seed)
        ent = []
        for _ in range(r):
            p = np.arange(m.n)
            rs.shuffle(p)
            ent += [m.entries[i] for i in p]
        new = m.clone(entries=ent, items=m.items and m.listable)
        if new.labelstate == 'dup':
            new.listable = False
            new.keysok = False
        new.bykey = m.bykey and new.labelstate == 'unique'
        return new
    if k == 'cycle':
        if not m.finite:
            raise Skip
        if m.n == 0:
            raise Skip      # degenerate: nothing to repeat (checked separately)
        return m.clone(finite=False, sized=False, copyable=False)
    if k == 'shuffle':
        _need(m.indexable and m.sized and m.finite,
              'one-time shuffle needs an indexable sized input')
        p = scripted_perm(op[1])(m.n)
        return m.clone(entries=[m.entries[i] for i in p],
                       items=m.items and m.listable, bykey=m.bykey and m.listable)
    if k == 'sort':
        if not m.finite:
            raise Skip
        _need(m.indexable and m.sized, 'sort needs an indexable input')
        ks = [sort_key(v) for v in m.values]
        if len(set(ks)) != len(ks):
            raise Skip                      # order among ties is not specified
        order = sorted(range(m.n), key=lambda i: ks[i], reverse=op[1])
        return m.clone(entries=[m.entries[i] for i in order],
                       items=m.items and m.listable, bykey=m.bykey and m.listable)
    if k == 'sort_keyless':
        if not m.finite:
            raise Skip
        _need(m.listable and m.labelstate != 'none', 'key-less sort needs keys()')
        _need(m.indexable and m.sized, 'sort needs an indexable input')
        if m.labelstate != 'unique':
            raise Skip
        order = sorted(range(m.n), key=lambda i: m.labels[i], reverse=op[1])
        return m.clone(entries=[m.entries[i] for i in order])
    if k in ('shard', 'split'):
        kk, i = op[1], op[2]
        if not m.finite:
            raise Skip
        _need(m.indexable and m.sized, 'split needs an indexable sized input')
        _need(1 <= kk <= m.n, 'shard count outside 1..n')
        parts = np.array_split(np.arange(m.n), kk)
        return m.clone(entries=[m.entries[j] for j in parts[i]],
                       items=m.items and m.listable, bykey=m.bykey and m.listable)
    if k == 'cache':
        if not m.finite:
            raise Skip
        _need(m.indexable and m.sized, 'lazy cache needs an indexable input')
        return m.clone(items=m.items and m.listable, bykey=m.bykey and m.listable)
    if k == 'ecache':
        if not m.finite:
            raise Skip
        _need(m.indexable or m.ordered,
              'eager caching needs an indexable or ordered input')
        if m.items and m.labelstate == 'unique':
            return M(list(m.entries), listable=True, items=True, bykey=True,
                     batched=m.batched)
        # from_dataset documents the fall-back to a list for datasets without
        # items() and for concatenations with duplicated keys; a *selection*
        # over duplicated keys answers the items() probe with "keys are not
        # unique", which is a loud refusal and not documented to work
        _need(m.items or m.keysok,
              'eager cache of a selection over duplicated keys')
        return M(m.drop_labels(), batched=m.batched)
    if k == 'catch':
        if not m.finite:
            raise Skip
        _need(m.indexable and m.sized and m.copyable, 'catch iterates by index')
        return m.clone(sized=False, indexable=False, listable=False,
                       items=(m.items and m.listable and m.labelstate == 'unique'
                              and m.bykey))
    if k == 'mapguard':
        # a map whose function raises for the example with source id op[1] and
        # passes every other example on unchanged: the pipeline is well defined
        # iff a later selection leaves that example out before anything
        # evaluates it (evaluation is demand-driven)
        return m.clone(entries=[(a, ('POISON', v) if op[1] in _ids(v) else v)
                                for a, v in m.entries], batched=False)
    if k == 'catchfilter':
        # .map(raise FilterException for ids divisible by mod).catch(): the
        # examples that raise are dropped, everything else as for catch
        c = _apply_op(m.clone(batched=False), ('catch',))
        return c.clone(entries=[(a, v) for a, v in c.entries if sid(v) % op[1] != 0])
    if k in ('copy', 'freeze'):
        _need(m.copyable, 'dataset has no copy')
        return m.clone()
    if k == 'prefetch1':
        return m.clone(indexable=False, listable=False, bykey=False)
    if k == 'prefetcht':
        if not m.finite:
            raise Skip
        _need(m.sized and m.indexable and m.copyable,
              'pool prefetch needs len and indexing')
        return m.clone(indexable=False, listable=False,
                       items=m.items and m.listable and m.bykey, bykey=False)
    if k == 'catchprefetch':
        # .map(raise FilterException for ids divisible by mod)
        # .prefetch(2, 3, 't', catch_filter_exception=True): the pool prefetch
        # leaves the failing examples out (and offers no length then)
        c = _apply_op(m.clone(batched=False), ('prefetcht', 2, 3))
        return c.clone(entries=[(a, v) for a, v in c.entries if sid(v) % op[1] != 0],
                       sized=False)
    if k == 'apply_lazy':
        _need(m.copyable, 'lazy apply copies its input')
        if not m.finite:
            raise Skip
        return m.clone(entries=[(a, (op[1], v)) for a, v in m.entries], sized=False,
                       indexable=False, listable=False, bykey=False, ordered=False,
                       batched=False)
    raise ValueError(f'unknown op {op!r}')


TRANSPARENT = ('map', 'parmap', 'apply_eager', 'mapfail', 'batch', 'batch_map',
               'copy', 'freeze', 'tile')
NOT_FROZEN_INDEXABLE = ('filter', 'unbatch', 'catch', 'catchfilter', 'catchprefetch', 'prefetch1', 'prefetcht',
                        'apply_lazy', 'localshuffle', 'cycle')


def apply(m, op, operand=None):
    """Model of `op` applied to `m`.  Also maintains `findexable`: whether a
    copy(freeze=True) of the dataset is indexable (a per-epoch reshuffle is not
    indexable itself, its frozen copy is) - this is what catch() and the pool
    prefetch need."""
    k = op[0]
    if (k in EVALUATING or (k == 'batch' and op[2])) and m.poisoned:
        # (batch(drop_last=True) has to evaluate the tail it drops)
        # the stage would evaluate an example that raises: not a pipeline whose
        # result the reference defines
        raise Skip
    fi = getattr(m, 'findexable', m.indexable)
    if k in ('catch', 'prefetcht', 'catchprefetch') and fi and not m.indexable:
        # judge the operation on the frozen view of its input
        new = _apply_op(m.clone(indexable=True), op, operand)
    else:
        new = _apply_op(m, op, operand)
    if k == 'reshuffle':
        new.findexable = fi
    elif k in TRANSPARENT:
        new.findexable = fi
    elif k == 'items':
        # indexing the i-th pair looks the key up in keys(): unique keys needed
        new.findexable = fi and m.labelstate == 'unique' and m.keysok
    elif k in ('concat', 'intersperse', 'zip', 'key_zip'):
        new.findexable = fi and getattr(operand, 'findexable', operand.indexable)
    elif k in ('concat3', 'concat_aba', 'intersperse_aba', 'intersperse3', 'zip3', 'key_zip3'):
        new.findexable = fi and all(getattr(o, 'findexable', o.indexable) for o in operand)
    elif k in NOT_FROZEN_INDEXABLE:
        new.findexable = False
    else:
        new.findexable = new.indexable
    return new



BINARY = ('concat', 'intersperse', 'zip', 'key_zip')
EMPTY_DICT = {'src': ('dict', 0, 'pickle', 'e', 200), 'ops': []}
EMPTY_LIST = {'src': ('list', 0, 'pickle', 'e', 200), 'ops': []}
LAST_DICT = {'src': ('dict', 2, 'pickle', 'r', 300), 'ops': []}
LAST_LIST = {'src': ('list', 2, 'pickle', 'r', 300), 'ops': []}


ABA_OTHER = {'dict': {'src': ('dict', 2, 'pickle', 'q', 100), 'ops': []},
             'list': {'src': ('list', 2, 'pickle', 'q', 100), 'ops': []}}


def concat3_operands(kind, form='method'):
    e, l = (EMPTY_DICT, LAST_DICT) if kind == 'dict' else (EMPTY_LIST, LAST_LIST)
    if form.endswith('empty-last'):
        return l, e
    if form.endswith('all-empty'):
        return e, {'src': (kind, 0, 'pickle', 'ee', 500), 'ops': []}
    return e, l


def _ids(t):
    out = []

    def rec(x):
        if isinstance(x, bool):
            return
        if isinstance(x, int):
            out.append(x)
        elif isinstance(x, (list, tuple)):
            for y in x:
                rec(y)
    rec(t)
    return out


def run(prog, upto=None):
    """prog = {'src': spec, 'ops': [op, ...]}; a binary op carries its operand
    as op[1]: 'self', 'selfmap' or a nested program.  Returns the model."""
    m = source(prog['src'])
    ops = prog['ops'] if upto is None else prog['ops'][:upto]
    for op in ops:
        operand = None
        if op[0] in BINARY:
            spec = op[1]
            if spec == 'self':
                operand = m.clone()
            elif spec == 'selfmap':
                operand = apply(m, ('map', 'z'))
            else:
                operand = run(spec)
        elif op[0] == 'concat3':
            operand = tuple(run(x) for x in concat3_operands(op[1], op[2]))
        elif op[0] in ('concat_aba', 'intersperse_aba'):
            # ds.concatenate(other, ds.map(z)): first and last part share keys,
            # the part between them has other keys
            operand = (run(ABA_OTHER[op[1]]), apply(m, ('map', 'z')))
        elif op[0] in NARY:
            operand = nary_operands(m, op)
        m = apply(m, op, operand)
    if upto is None and m.poisoned:
        raise Skip            # iterating it would raise: no reference result
    return m


NARY = ('intersperse3', 'zip3', 'key_zip3')


def nary_operand_programs(m, op):
    """Programs of the 2nd and 3rd input of a 3-way operation (the 2nd is
    'selfmap' for zip3 / key_zip3)."""
    kind = op[1]
    if op[0] == 'intersperse3':
        return concat3_operands(kind)[1], \
            {'src': (kind, 3, 'pickle', 's', 400), 'ops': [('map', 'g')]}
    if op[0] == 'zip3':
        return 'selfmap', {'src': (kind, m.n, 'pickle', 'q', 100), 'ops': []}
    return 'selfmap', {'src': ('dict', m.n, 'pickle', 'k', 100, 'rev'), 'ops': []}


def nary_operands(m, op):
    a_, b_ = nary_operand_programs(m, op)
    ma = apply(m, ('map', 'z')) if a_ == 'selfmap' else run(a_)
    return ma, run(b_)
