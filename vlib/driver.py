"""Runs a monitor: shards -> worker processes -> merge -> verdict, evidence."""
import os
import sys
import json
import time
import pickle
import shutil
import tempfile
import importlib
import subprocess

from . import findings
from .common import (HOME, EVIDENCE_DIR, REPLAY_DIR, PYTHON, NCPU, REPO,
                     stable_hash, jsonable)
from .result import Result

EXIT_HELD, EXIT_VIOLATION, EXIT_INCONCLUSIVE = 0, 1, 2


def load_monitor(prop):
    return importlib.import_module(f'vlib.monitors.{prop.lower()}')


def run_shards(prop, specs, timeout, jobs=NCPU):
    """Run every shard spec in its own subprocess, `jobs` at a time."""
    res = Result()
    tmp = tempfile.mkdtemp(prefix=f'verif_{prop}_')
    env = dict(os.environ)
    env['PYTHONPYCACHEPREFIX'] = os.path.join(tmp, 'pyc')
    if specs and specs[0].get('tier'):
        env['VERIF_SHARD_TIER'] = specs[0]['tier']
    pending = list(enumerate(specs))
    running = {}
    try:
        while pending or running:
            while pending and len(running) < jobs:
                i, spec = pending.pop(0)
                sp = os.path.join(tmp, f'spec{i}.json')
                op = os.path.join(tmp, f'out{i}.pkl')
                lp = os.path.join(tmp, f'log{i}.txt')
                with open(sp, 'w') as fd:
                    json.dump(spec, fd)
                log = open(lp, 'wb')
                p = subprocess.Popen(
                    [PYTHON, '-W', 'ignore', '-m', 'vlib.worker', prop, sp, op],
                    cwd=str(HOME), env=env, stdout=log, stderr=subprocess.STDOUT)
                running[i] = (p, spec, op, lp, log, time.monotonic())
            done = []
            for i, (p, spec, op, lp, log, t0) in running.items():
                rc = p.poll()
                if rc is None:
                    if time.monotonic() - t0 > timeout:
                        import signal
                        try:
                            p.send_signal(signal.SIGUSR1)
                            time.sleep(1.0)
                        except Exception:
                            pass
                        p.kill()
                        p.wait()
                        log.flush()
                        try:
                            tail = open(lp, 'rb').read()[-3000:].decode('utf8', 'replace')
                        except Exception:
                            tail = ''
                        res.inconclusive_because(
                            f'shard {spec.get("name")} exceeded the '
                            f'{timeout}s watchdog; stacks: {tail}')
                        done.append(i)
                    continue
                done.append(i)
                log.close()
                if os.environ.get('VERIF_SHARD_TIMES'):
                    print(f'  shard {spec.get("name"):24s} {time.monotonic() - t0:7.1f}s',
                          flush=True)
                if os.path.exists(op):
                    with open(op, 'rb') as fd:
                        res.merge(pickle.load(fd))
                else:
                    tail = open(lp, 'rb').read()[-800:].decode('utf8', 'replace')
                    res.inconclusive_because(
                        f'shard {spec.get("name")} died (rc={rc}): {tail}')
            for i in done:
                try:
                    running[i][4].close()
                except Exception:
                    pass
                del running[i]
            if not done:
                time.sleep(0.02)
    finally:
        for p, *_ in running.values():
            p.kill()
        shutil.rmtree(tmp, ignore_errors=True)
    return res


def _pick_samples(samples, k=8):
    """A spread over the shards rather than the first k."""
    if len(samples) <= k:
        return samples
    step = len(samples) / k
    return [samples[int(i * step)] for i in range(k)]


def _size(w):
    return len(json.dumps(w['case'], default=repr))


def write_replay(prop, witness):
    d = REPLAY_DIR / prop
    d.mkdir(parents=True, exist_ok=True)
    name = f'{witness["kind"]}-{stable_hash(witness["sig"]):016x}.json'
    name = name.replace('/', '_').replace(' ', '_')
    path = d / name
    with open(path, 'w') as fd:
        json.dump({'property': prop, **witness}, fd, indent=1, default=repr)
    return path


def check(prop, tier, seed, shard_filter=None):
    t0 = time.time()
    mon = load_monitor(prop)
    specs = mon.shards(tier, seed)
    for i, s in enumerate(specs):
        s.setdefault('name', f's{i}')
        s['tier'] = tier
        s['seed'] = seed
    if shard_filter:
        specs = [s for s in specs if shard_filter in s['name']]
    timeout = getattr(mon, 'SHARD_TIMEOUT', {}).get(
        tier, 600 if tier == 'quick' else 7200)
    res = run_shards(prop, specs, timeout)
    extra = {}
    if hasattr(mon, 'finalize'):
        extra = mon.finalize(res, tier) or {}

    # ---- classify violations ---------------------------------------------
    entries = findings.load()
    known = {}
    unknown = {}
    for w in res.violations:
        e = findings.classify(prop, w, entries)
        if e is not None:
            known.setdefault(e['id'], (e, w))
        else:
            # keep the smallest witness per mechanism signature
            h = stable_hash(w['sig'])
            if h not in unknown or _size(w) < _size(unknown[h]):
                unknown[h] = w
    for fid, (e, w) in sorted(known.items()):
        print(f'KNOWN-FINDING: property={prop} {fid}: {e["what"]}')
    printed = 0
    for h, w in unknown.items():
        path = write_replay(prop, w)
        if printed < 25:
            rel = os.path.relpath(path, HOME)
            print(f'VIOLATION property={prop} replay={rel}')
            print(f'  kind={w["kind"]} case={json.dumps(w["case"], default=repr)[:300]}')
            print(f'  detail={json.dumps(w["detail"], default=repr)[:400]}')
            printed += 1
    if len(unknown) > printed:
        print(f'  ... {len(unknown) - printed} more distinct violation '
              f'signatures (replay files written)')

    # ---- evidence ----------------------------------------------------------
    level = getattr(mon, 'LEVEL', 'exploration')
    coverage = {
        'evaluations': res.evaluations,
        'distinct_nontrivial': len(res.nontrivial),
        'rule': getattr(mon, 'RULE', ''),
        'samples': _pick_samples(res.samples),
        'counters': {k: v for k, v in sorted(res.counters.items())},
        'maxima': {k: v for k, v in sorted(res.maxima.items())},
        'distinct_seen': {k: len(v) for k, v in sorted(res.sets.items())},
        'shards': len(specs),
        'known_findings_fired': sorted(known),
        'unlisted_violation_signatures': len(unknown),
        'inconclusive_reasons': res.inconclusive[:20],
        'repo': str(REPO),
    }
    small_sets = {}
    for k, v in res.sets.items():
        if len(v) <= 40:
            small_sets[k] = sorted(map(str, v))
    coverage['seen_values'] = small_sets
    coverage.update(extra)
    verdict = ('violated' if unknown else
               'inconclusive' if res.inconclusive else 'held_on_observed')
    coverage['verdict'] = verdict
    ev = {
        'property_id': prop, 'tier': tier, 'seed': seed, 'level': level,
        'coverage': jsonable(coverage),
        'assumptions': list(getattr(mon, 'ASSUMPTIONS', [])),
        'wall_s': round(time.time() - t0, 2),
        'violations': len(unknown),
    }
    EVIDENCE_DIR.mkdir(parents=True, exist_ok=True)
    with open(EVIDENCE_DIR / f'{prop}.json', 'w') as fd:
        json.dump(ev, fd, indent=1, default=repr)

    summary = (f'{prop} [{tier}, seed {seed}]: {res.evaluations} evaluations, '
               f'{len(res.nontrivial)} distinct non-trivial, '
               f'{len(known)} known findings, {len(unknown)} violations, '
               f'{ev["wall_s"]}s')
    print(summary)
    if hasattr(mon, 'report'):
        for line in mon.report(res):
            print('  ' + line)
    if unknown:
        return EXIT_VIOLATION
    if res.inconclusive:
        for r in res.inconclusive[:10]:
            print(f'INCONCLUSIVE property={prop} reason={r[:600]}')
        return EXIT_INCONCLUSIVE
    return EXIT_HELD
