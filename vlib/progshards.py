"""Shared shard layout and driver loop for the program-based monitors
(C01, C02, C03): bounded-exhaustive programs by depth + random deeper ones."""
import itertools

from . import programs, progengine
from .common import import_lazy_dataset, rng_for, stable_hash
from .programs import op_name

LIMITS = {
    'quick': dict(depths=(0, 1, 2), nrand=4000, maxdepth=6, nbig=600, J=14),
    'thorough': dict(depths=(0, 1, 2, 3), nrand=60000, maxdepth=8, nbig=12000, J=15),
}
DEPTH3_SOURCES = [('dict', 3, 'pickle'), ('list', 3, 'pickle'), ('dict', 0, 'pickle'),
                  ('list', 1, 'pickle'), ('dict', 5, 'copy'), ('list', 4, 'wu'),
                  ('dict', 2, 'pickle')]


def shards(tier, seed, prop):
    lim = LIMITS[tier]
    out = []
    J = lim['J']
    for j in range(J):
        out.append({'name': f'exh{j}', 'what': 'exh', 'mod': J, 'rem': j,
                    'depths': list(lim['depths'])})
    for j in range(2 if tier == 'quick' else 16):
        n = 2 if tier == 'quick' else 16
        out.append({'name': f'rand{j}', 'what': 'rand', 'count': lim['nrand'] // n,
                    'maxdepth': lim['maxdepth'], 'nbig': lim['nbig'] // n})
    # datasets of a few hundred examples (around 2^8, where index arrays and
    # serialized stores may change representation): every operation once, and
    # seeded pairs of operations
    JL = 4
    for j in range(JL):
        out.append({'name': f'large{j}', 'what': 'large', 'mod': JL, 'rem': j,
                    'pairs': 150 if tier == 'quick' else 3000})
    return out


LARGE_SOURCES = [('dict', 257, 'pickle'), ('list', 300, 'pickle'), ('list', 256, 'wu'),
                 ('dict', 1000, 'copy'), ('list', 129, 'pickle'), ('dict', 128, 'copy'),
                 ('list', 513, 'wu')]
# plus, per seed, two more lengths next to a power of two (2^7 .. 2^11)
BOUNDARY = sorted({2 ** k + d for k in range(7, 12) for d in (-1, 0, 1, 2)})


def iter_programs(spec, prop):
    if spec['what'] == 'exh':
        cnt = 0
        for d in spec['depths']:
            srcs = programs.SOURCES if d < 3 else DEPTH3_SOURCES
            # depth 3 (alphabet^3 x sources, some 12 million programs since
            # the alphabet has ~135 operations) is a seed-dependent 1/8 sample:
            # all of it over eight seeds
            stride = 8 if d >= 3 else 1
            for prog in programs.exhaustive(d, srcs):
                cnt += 1
                if cnt % spec['mod'] == spec['rem'] and \
                        (cnt // spec['mod']) % stride == spec['seed'] % stride:
                    yield prog
    elif spec['what'] == 'large':
        rng = rng_for(spec['seed'], prop, 'large')     # same plan in every shard
        cnt = 0
        extra = [('list', BOUNDARY[(3 * spec['seed']) % len(BOUNDARY)], 'pickle'),
                 ('dict', BOUNDARY[(3 * spec['seed'] + 7) % len(BOUNDARY)], 'pickle')]
        for src in LARGE_SOURCES + extra:
            alpha = programs.alphabet(src[1], src[0])
            plan = [[op] for op in alpha]
            plan += [[rng.choice(alpha), rng.choice(alpha)] for _ in range(spec['pairs'])]
            for ops in plan:
                cnt += 1
                if cnt % spec['mod'] == spec['rem']:
                    yield {'src': src, 'ops': ops}
    else:
        rng = rng_for(spec['seed'], prop, spec['name'])
        for _ in range(spec['count']):
            yield programs.random_program(rng, spec['maxdepth'])
        for _ in range(spec['nbig']):
            yield programs.random_program(rng, 4, big=True)


def coverage_note(res, prog, status, m):
    names = [op_name(op) for op in prog['ops']]
    for a, b in zip(names, names[1:]):
        res.seen('op_pairs', f'{a}>{b}')
    for a in names:
        res.seen('ops', a)
    res.count(f'status:{status}')


def run(spec, res, prop, aspects, judge, nontrivial, prefix_hook_factory=None):
    ld = import_lazy_dataset()
    for prog in iter_programs(spec, prop):
        hook = prefix_hook_factory(prog, res) if prefix_hook_factory else None
        status, m, o = progengine.run_case(ld, prog, aspects, prefix_hook=hook,
                                           watchdog_s=60 if spec['what'] == 'large' else 8)
        if spec['what'] == 'large' and status == 'ok':
            res.count('large_dataset_programs')
            res.maximum('largest_result_compared', m.n if m.finite else 0)
        if status == 'skip':
            res.count('status:skip')
            continue
        if status == 'watchdog':
            res.inconclusive_because(f'watchdog fired on {prog!r}')
            continue
        coverage_note(res, prog, status, m)
        nt = judge(prog, status, m, o, res)
        res.case(prog, nontrivial=bool(nt) and nontrivial(prog, status, m, o))
        if status == 'ok' and len(prog['ops']) >= 2 and len(res.samples) < 2 \
                and m.n >= 2:
            res.sample({'program': prog, 'reference_values': m.values[:6],
                        'capabilities': m.caps(), 'observed_iteration': o['iter1']})
