"""Shared helpers: paths, repository import guard, seeding, stable hashing."""
import os
import sys
import zlib
import random
import hashlib
import warnings
from pathlib import Path

HOME = Path(os.environ.get('VERIF_HOME', Path(__file__).resolve().parents[1]))
REPO = Path(os.environ.get('VERIF_REPO', '/repo')).resolve()
EVIDENCE_DIR = Path(os.environ.get('VERIF_EVIDENCE_DIR', HOME / 'evidence'))
REPLAY_DIR = Path(os.environ.get('VERIF_REPLAY_DIR', HOME / 'replays'))
PYTHON = os.environ.get('VERIF_PYTHON', '/venv/bin/python')
NCPU = int(os.environ.get('VERIF_JOBS', '16'))

PROPERTIES = [f'C{i:02d}' for i in range(1, 21)]


def env_seed():
    try:
        return int(os.environ.get('VERIF_SEED', '0'))
    except ValueError:
        return 0


def env_tier(default='quick'):
    t = os.environ.get('VERIF_TIER', default)
    return t if t in ('quick', 'thorough') else default


def rng_for(seed, prop, shard):
    """Deterministic generator; independent of PYTHONHASHSEED."""
    return random.Random(f'{seed}:{prop}:{shard}')


def stable_hash(obj):
    """64-bit hash of repr(obj); never uses hash() of strings."""
    h = hashlib.blake2b(repr(obj).encode(), digest_size=8).digest()
    return int.from_bytes(h, 'big')


def crc(obj):
    return zlib.crc32(repr(obj).encode())


_LD = None


def import_lazy_dataset():
    """Import the library under test and make sure it is the working tree of
    VERIF_REPO, not some installed copy."""
    global _LD
    if _LD is not None:
        return _LD
    warnings.simplefilter('ignore')
    os.environ.setdefault('OMP_NUM_THREADS', '1')
    os.environ.setdefault('MKL_NUM_THREADS', '1')
    if str(REPO) not in sys.path:
        sys.path.insert(0, str(REPO))
    import lazy_dataset
    p = Path(lazy_dataset.__file__).resolve()
    if REPO not in p.parents:
        raise RuntimeError(
            f'lazy_dataset imported from {p}, expected below {REPO}')
    import logging
    logging.getLogger('lazy_dataset').setLevel(logging.ERROR)
    _LD = lazy_dataset
    return lazy_dataset


def exc_sig(e):
    """Short description of an exception for witnesses."""
    return f'{type(e).__name__}: {str(e)[:120]}'


def jsonable(x, depth=0):
    """Best-effort conversion of terms / observations to JSON-able data."""
    import numpy as np
    if depth > 12:
        return repr(x)[:200]
    if isinstance(x, (str, int, float, bool)) or x is None:
        return x
    if isinstance(x, (np.integer,)):
        return int(x)
    if isinstance(x, (np.floating,)):
        return float(x)
    if isinstance(x, np.ndarray):
        return {'ndarray': x.tolist()}
    if isinstance(x, slice):
        return {'slice': [x.start, x.stop, x.step]}
    if isinstance(x, tuple):
        return {'t': [jsonable(i, depth + 1) for i in x]}
    if isinstance(x, (list, set, frozenset)):
        return [jsonable(i, depth + 1) for i in x]
    if isinstance(x, dict):
        return {str(k): jsonable(v, depth + 1) for k, v in x.items()}
    if isinstance(x, BaseException):
        return exc_sig(x)
    return repr(x)[:200]


def unjson(x):
    """Inverse of jsonable for the shapes used in case descriptions."""
    import numpy as np
    if isinstance(x, dict):
        if set(x) == {'t'}:
            return tuple(unjson(i) for i in x['t'])
        if set(x) == {'slice'}:
            return slice(*x['slice'])
        if set(x) == {'ndarray'}:
            return np.array(x['ndarray'], dtype=int)
        return {k: unjson(v) for k, v in x.items()}
    if isinstance(x, list):
        return [unjson(i) for i in x]
    return x
