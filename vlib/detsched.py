"""Controlled scheduler: real threads, one baton.

Every thread the code under test creates is a real OS thread, but it only runs
while it holds the baton; all others wait on a private semaphore.  A *chooser*
decides at every scheduling point who runs next, so an execution is replayable
from (scenario, list of choices).

Scheduling points
  * every `line` event in the traced files (lazy_dataset/parallel_utils.py and
    the prefetch-related methods of core.py), installed with sys.settrace in
    every controlled thread;
  * explicit S.preempt() calls inside the instrumented user functions;
  * every operation on a shimmed primitive (SQueue, SThread, SExecutor, SFuture).
CPython may switch threads between any two bytecodes, so every interleaving
explored here is one the real program can exhibit.

Deadlock is a state, not a timeout: no enabled thread while some are unfinished.
"""
import sys
import queue as _rq
import threading
import collections
import concurrent.futures as _cf

_RealThread = threading.Thread
_RealSem = threading.Semaphore


class Deadlock(BaseException):
    pass


class Abort(BaseException):
    """Raised inside leftover threads when an execution is torn down."""


class StepLimit(BaseException):
    pass


class TS:
    __slots__ = ('name', 'sem', 'pred', 'desc', 'done', 'prio', 'real', 'timed',
                 'timedout')

    def __init__(self, name):
        self.name = name
        self.sem = _RealSem(0)
        self.pred = None
        self.desc = None
        self.done = False
        self.prio = 0
        self.real = None
        self.timed = False       # blocked in a wait that has a timeout
        self.timedout = False


class Sched:
    def __init__(self, chooser, traced_files, traced_quals=None, step_limit=200000):
        self.chooser = chooser
        self.traced = traced_files          # {filename: None | tuple of qualname prefixes}
        self.threads = []
        self.cur = None
        self.events = []
        self.deadlock = None
        self.nchoices = 0
        self.nsteps = 0
        self.nthreads = 0
        self.by_ident = {}
        self.abort = False
        self.step_limit = step_limit
        self.shim_ops = collections.Counter()
        self.max_enabled = 1
        self.choices = []                   # (n_enabled, chosen index, preemptive?)
        self.timeouts = 0                   # timed waits that expired

    # ---- registration
    def register_main(self):
        ts = TS('main')
        self.threads.append(ts)
        self.cur = ts
        self.by_ident[threading.get_ident()] = ts
        return ts

    def me(self):
        return self.by_ident[threading.get_ident()]

    def ev(self, *a):
        self.events.append((self.me().name,) + a)

    # ---- core
    def enabled(self):
        # A wait with a timeout may expire at any moment (the other threads can
        # be arbitrarily slow), so a timed waiter is always enabled: when it is
        # chosen while its condition does not hold, the wait times out.
        return [t for t in self.threads
                if not t.done and (t.pred is None or t.timed or t.pred())]

    def _handover(self, me, nxt):
        self.cur = nxt
        nxt.sem.release()
        if me is not None:
            me.sem.acquire()
            if self.abort:
                raise Abort()
            if self.deadlock is not None and me is self.threads[0]:
                raise Deadlock(self.deadlock)

    def _declare_deadlock(self, me):
        self.deadlock = [(t.name, t.desc) for t in self.threads if not t.done]
        main = self.threads[0]
        if me is main:
            raise Deadlock(self.deadlock)
        # wake main so that it can raise; this thread parks forever (torn down later)
        main.pred = None
        self.cur = main
        main.sem.release()
        me.sem.acquire()
        raise Abort()

    def switch(self, me, voluntary):
        if self.abort:
            raise Abort()
        self.nsteps += 1
        if self.nsteps > self.step_limit:
            raise StepLimit()
        en = self.enabled()
        if not en:
            self._declare_deadlock(me)
        if len(en) > 1:
            self.nchoices += 1
            if len(en) > self.max_enabled:
                self.max_enabled = len(en)
            nxt = self.chooser(self, en, me if me in en else None)
            self.choices.append((len(en), en.index(nxt), me in en))
        else:
            nxt = en[0]
        if nxt is not me:
            self._handover(me, nxt)

    def preempt(self, loc=None):
        self.switch(self.me(), True)

    def block_until(self, pred, desc, timed=False):
        """Returns True when pred() holds, False when a timed wait expired."""
        if pred():
            return True
        me = self.me()
        me.pred = pred
        me.desc = desc
        me.timed = timed
        try:
            self.switch(me, False)
            ok = bool(pred())
        finally:
            me.pred = None
            me.desc = None
            me.timed = False
        if not ok:
            self.timeouts += 1
        return ok

    def thread_exit(self, me):
        me.done = True
        if self.abort:
            return
        en = self.enabled()
        if not en:
            left = [(t.name, t.desc) for t in self.threads if not t.done]
            if left:
                self.deadlock = left
                main = self.threads[0]
                main.pred = None
                self.cur = main
                main.sem.release()
            return
        if len(en) > 1:
            self.nchoices += 1
            nxt = self.chooser(self, en, None)
            self.choices.append((len(en), en.index(nxt), False))
        else:
            nxt = en[0]
        self.cur = nxt
        nxt.sem.release()

    def alive(self):
        return [t.name for t in self.threads if not t.done and t.name != 'main']

    def teardown(self):
        """Release every leftover thread with Abort and wait for it."""
        self.abort = True
        for t in self.threads[1:]:
            if not t.done:
                t.sem.release()
        for t in self.threads[1:]:
            if t.real is not None:
                t.real.join(2.0)

    # ---- tracing
    def tracer(self, frame, event, arg):
        if event == 'call':
            code = frame.f_code
            quals = self.traced.get(code.co_filename, 0)
            if quals == 0:
                return None
            if quals is None or code.co_qualname.startswith(quals):
                return self.local
        return None

    def local(self, frame, event, arg):
        if event == 'line':
            self.switch(self.me(), True)
        return self.local


S = None


class SThread:
    def __init__(self, group=None, target=None, name=None, args=(), kwargs=None,
                 daemon=None):
        self.target = target
        self.args = args
        self.kwargs = kwargs or {}
        S.nthreads += 1
        self.ts = TS(name if (name and name.startswith('W')) else f'T{S.nthreads}')
        self.exc = None

    def start(self):
        S.shim_ops['thread.start'] += 1
        S.threads.append(self.ts)
        self.real = _RealThread(target=self._run, daemon=True)
        self.ts.real = self.real
        self.real.start()
        S.ev('thread_start', self.ts.name)

    def _run(self):
        sched = S
        sched.by_ident[threading.get_ident()] = self.ts
        self.ts.sem.acquire()
        if sched.abort:
            self.ts.done = True
            return
        sys.settrace(sched.tracer)
        try:
            self.target(*self.args, **self.kwargs)
        except (Deadlock, Abort, StepLimit):
            pass
        except BaseException as e:
            self.exc = e
            if not sched.abort:
                sched.events.append((self.ts.name, 'thread_uncaught', type(e).__name__))
        finally:
            sys.settrace(None)
            if not sched.abort:
                sched.events.append((self.ts.name, 'thread_exit'))
            sched.thread_exit(self.ts)

    def join(self, timeout=None):
        S.shim_ops['thread.join'] += 1
        S.block_until(lambda: self.ts.done, f'join {self.ts.name}',
                      timed=timeout is not None)

    def is_alive(self):
        return not self.ts.done


class SQueue:
    def __init__(self, maxsize=0):
        self.maxsize = maxsize
        self.d = collections.deque()
        self.queue = self.d              # queue.Queue exposes its deque as .queue
        self.mutex = SLock()

    def qsize(self):
        S.shim_ops['queue.qsize'] += 1
        return len(self.d)

    def empty(self):
        S.shim_ops['queue.empty'] += 1
        return not self.d

    def full(self):
        return 0 < self.maxsize <= len(self.d)

    def put(self, item, block=True, timeout=None):
        S.shim_ops['queue.put'] += 1
        if self.full():
            if not block:
                raise _rq.Full
            if not S.block_until(lambda: not self.full(), 'put(full)',
                                 timed=timeout is not None):
                raise _rq.Full
        self.d.append(item)

    def get(self, block=True, timeout=None):
        S.shim_ops['queue.get'] += 1
        if not self.d:
            if not block:
                raise _rq.Empty
            if not S.block_until(lambda: bool(self.d), 'get(empty)',
                                 timed=timeout is not None):
                raise _rq.Empty
        return self.d.popleft()

    def put_nowait(self, item):
        return self.put(item, block=False)

    def get_nowait(self):
        return self.get(block=False)


class SFuture(_cf.Future):
    def result(self, timeout=None):
        S.shim_ops['future.result'] += 1
        if not S.block_until(self.done, 'future.result', timed=timeout is not None):
            raise _cf.TimeoutError()
        return super().result(timeout=0)


class SExecutor:
    """Behaves like concurrent.futures.ThreadPoolExecutor (3.12): workers are
    spawned lazily up to max_workers, tasks are taken FIFO, queued tasks are
    still run after shutdown(wait=True) unless cancelled, a BaseException of a
    task is stored on its future."""

    def __init__(self, max_workers=None):
        self.max_workers = max_workers or 4
        self.work = collections.deque()
        self.workers = []
        self.idle = 0
        self._shutdown = False

    def submit(self, fn, *a, **kw):
        S.shim_ops['executor.submit'] += 1
        if self._shutdown:
            raise RuntimeError('cannot schedule new futures after shutdown')
        f = SFuture()
        self.work.append((f, fn, a, kw))
        if self.idle == 0 and len(self.workers) < self.max_workers:
            t = SThread(target=self._worker, name=f'W{len(self.workers)}')
            self.workers.append(t)
            t.start()
        return f

    def _worker(self):
        while True:
            self.idle += 1
            S.block_until(lambda: bool(self.work) or self._shutdown, 'worker idle')
            self.idle -= 1
            if self.work:
                f, fn, a, kw = self.work.popleft()
                if not f.set_running_or_notify_cancel():
                    S.events.append((S.me().name, 'task_cancelled'))
                    continue
                S.events.append((S.me().name, 'task_taken'))
                try:
                    r = fn(*a, **kw)
                except (Deadlock, Abort, StepLimit):
                    raise
                except BaseException as e:
                    f.set_exception(e)
                else:
                    f.set_result(r)
            else:
                return

    def shutdown(self, wait=True, cancel_futures=False):
        S.shim_ops['executor.shutdown'] += 1
        self._shutdown = True
        if cancel_futures:
            while self.work:
                self.work.popleft()[0].cancel()
        if wait:
            for t in self.workers:
                t.join()

    def __enter__(self):
        return self

    def __exit__(self, *a):
        self.shutdown(wait=True)
        return False


class SLock:
    """Cooperative lock / semaphore / event / condition: a thread that has to
    wait hands the baton on instead of blocking the process."""

    def __init__(self, value=1, reentrant=False):
        self.value = value
        self.reentrant = reentrant
        self.owner = None
        self.depth = 0

    def acquire(self, blocking=True, timeout=None):
        S.shim_ops['lock.acquire'] += 1
        me = S.me()
        if self.reentrant and self.owner is me:
            self.depth += 1
            return True
        if self.value <= 0:
            if not blocking or timeout == 0:
                return False
            ok = S.block_until(lambda: self.value > 0, 'lock.acquire',
                               timed=timeout is not None and timeout >= 0)
            if not ok:
                return False
        self.value -= 1
        self.owner = me
        self.depth = 1
        return True

    def release(self, n=1):
        S.shim_ops['lock.release'] += 1
        if self.reentrant and self.depth > 1:
            self.depth -= 1
            return
        self.value += n
        self.owner = None

    def locked(self):
        return self.value <= 0

    __enter__ = acquire

    def __exit__(self, *a):
        self.release()
        return False


def SRLock():
    return SLock(1, reentrant=True)


def SSemaphore(value=1):
    return SLock(value)


class SEvent:
    def __init__(self):
        self.flag = False

    def is_set(self):
        return self.flag

    def set(self):
        S.shim_ops['event.set'] += 1
        self.flag = True

    def clear(self):
        self.flag = False

    def wait(self, timeout=None):
        S.shim_ops['event.wait'] += 1
        if self.flag:
            return True
        return S.block_until(lambda: self.flag, 'event.wait',
                             timed=timeout is not None)


class SCondition:
    def __init__(self, lock=None):
        self.lock = lock or SRLock()
        self.gen = 0
        self.acquire = self.lock.acquire
        self.release = self.lock.release

    def __enter__(self):
        return self.lock.acquire()

    def __exit__(self, *a):
        self.lock.release()
        return False

    def wait(self, timeout=None):
        g = self.gen
        self.lock.release()
        ok = S.block_until(lambda: self.gen != g, 'condition.wait',
                           timed=timeout is not None)
        self.lock.acquire()
        return ok

    def wait_for(self, predicate, timeout=None):
        while not predicate():
            if not self.wait(timeout):
                return predicate()
        return True

    def notify(self, n=1):
        self.gen += 1

    notify_all = notify


class _NS:
    """Namespace that overrides some names of a real module."""

    def __init__(self, _base=None, **kw):
        self.__dict__.update(kw)
        self.__dict__['_base'] = _base

    def __getattr__(self, name):
        base = self.__dict__.get('_base')
        if base is not None:
            return getattr(base, name)
        raise AttributeError(name)


def install(pu):
    """Replace the primitives inside lazy_dataset.parallel_utils."""
    pu.queue = _NS(_rq, Queue=SQueue, SimpleQueue=SQueue, LifoQueue=None)
    pu.threading = _NS(threading, Thread=SThread, Lock=SLock, RLock=SRLock,
                       Semaphore=SSemaphore, BoundedSemaphore=SSemaphore,
                       Event=SEvent, Condition=SCondition)
    pu.concurrent = _NS(futures=_NS(
        _cf, ThreadPoolExecutor=SExecutor, ProcessPoolExecutor=None,
        Future=SFuture, Executor=SExecutor))


def uninstall(pu):
    import queue
    import threading as th
    import concurrent.futures
    pu.queue = queue
    pu.threading = th
    pu.concurrent = concurrent


def run(chooser, traced, body, step_limit=200000):
    """Run body(S) in the calling thread as `main` under the scheduler."""
    global S
    S = Sched(chooser, traced, step_limit=step_limit)
    S.register_main()
    old = sys.gettrace()
    # The collector is switched off for the run and run once, for the objects
    # of this run, before the scheduler goes away: a suspended generator of
    # the library that an execution leaves behind in a reference cycle holds
    # primitives of THIS scheduler; were it finalised at some later moment (in
    # the middle of another execution) its clean-up would wait on a scheduler
    # that no longer exists.  (With the collector off, such a leak also stays
    # visible to the body's own end-of-run checks instead of depending on
    # when the collector happens to run.)
    import gc
    was_on = gc.isenabled()
    gc.disable()
    sys.settrace(S.tracer)
    try:
        out = body(S)
        try:
            gc.collect(0)
        except BaseException:       # noqa: clean-up of leftovers may be cut short
            pass
        return out
    finally:
        sys.settrace(old)
        S.teardown()
        if was_on:
            gc.enable()


# ------------------------------------------------------------------ choosers
def random_chooser(rng):
    def ch(S, en, me):
        return en[rng.randrange(len(en))]
    return ch


def sticky_random_chooser(rng, p_switch=0.15):
    """Mostly keeps running the current thread; long uninterrupted stretches."""
    def ch(S, en, me):
        if me is not None and rng.random() > p_switch:
            return me
        return en[rng.randrange(len(en))]
    return ch


def pct_chooser(rng, depth=3, horizon=400):
    """PCT: random thread priorities, `depth` priority-change points."""
    change = sorted(rng.randrange(1, horizon) for _ in range(depth))
    state = {'next': 0}

    def prio(t):
        if t.prio == 0:
            t.prio = rng.random() + 1.0
        return t.prio

    def ch(S, en, me):
        while state['next'] < len(change) and S.nchoices >= change[state['next']]:
            if me is not None:
                me.prio = rng.random() * 0.5        # demote the running thread
            state['next'] += 1
        return max(en, key=prio)
    return ch


def starve_consumer_chooser(rng=None):
    """Run everything else until it blocks; the consumer only when alone."""
    def ch(S, en, me):
        others = [t for t in en if t.name != 'main']
        if not others:
            return en[0]
        if me is not None and me in others:
            return me
        return others[0] if rng is None else others[rng.randrange(len(others))]
    return ch


def consumer_first_after(marker, rng):
    """Random until the event `marker` was logged by main, then the consumer
    runs whenever it can."""
    state = {'seen': False, 'n': 0}

    def ch(S, en, me):
        if not state['seen']:
            evs = S.events
            for i in range(state['n'], len(evs)):
                if evs[i][1] == marker:
                    state['seen'] = True
                    break
            state['n'] = len(evs)
        if state['seen']:
            for t in en:
                if t.name == 'main':
                    return t
        return en[rng.randrange(len(en))]
    return ch


def youngest_first_chooser(rng):
    """Reverse-completion: the most recently created enabled worker runs first."""
    def ch(S, en, me):
        ws = [t for t in en if t.name != 'main']
        if ws and rng.random() < 0.9:
            return ws[-1]
        return en[rng.randrange(len(en))]
    return ch


def replay_chooser(choices):
    it = iter(choices)

    def ch(S, en, me):
        try:
            c = next(it)
        except StopIteration:
            return me if me is not None else en[0]
        return en[c % len(en)]
    return ch


class DFS:
    """Depth-first exploration of the choice tree with a preemption bound:
    switching away from a thread that could continue costs 1, switches at
    blocking points are free."""

    BRANCH_DEPTH = 3000

    def __init__(self, bound, max_runs=10 ** 9):
        self.bound = bound
        self.max_runs = max_runs
        self.runs = 0
        self.steplimit_runs = 0
        self.complete = False

    def explore(self, run_once):
        todo = [[]]
        while todo:
            if self.runs >= self.max_runs:
                return
            prefix = todo.pop()
            trace = []

            def ch(S, en, me, prefix=prefix, trace=trace):
                i = len(trace)
                default = en.index(me) if me is not None else 0
                c = prefix[i] if i < len(prefix) else default
                if c >= len(en):
                    c = default
                trace.append((len(en), c, default, me is not None))
                return en[c]
            res = run_once(ch)
            self.runs += 1
            if isinstance(res, dict) and res.get('steplimit'):
                # an execution that did not end within the step bound (a
                # polling loop that cannot make progress) is inconclusive by
                # itself; branching off its thousands of choice points would
                # only produce more of the same, each as long
                self.steplimit_runs += 1
                yield res
                if self.steplimit_runs >= 3:
                    return
                continue
            used = 0
            # (alternatives are branched off within the first BRANCH_DEPTH
            # choice points only: an execution that polls - a wait with a
            # timeout in a loop - has hundreds of thousands of choice points,
            # and one stored prefix per choice point is quadratic in memory)
            for i, (k, c, d, pre) in enumerate(trace[:self.BRANCH_DEPTH]):
                if i >= len(prefix):
                    for alt in range(k):
                        if alt == c:
                            continue
                        if used + (1 if pre else 0) <= self.bound:
                            todo.append([t[1] for t in trace[:i]] + [alt])
                if pre and c != d:
                    used += 1
            yield res
        self.complete = True
