"""Self-validation: does each monitor fire on a realistic break?

./verif selftest Cxx|all [--only name]

For every mutant of the property: copy $VERIF_REPO/lazy_dataset to a scratch
directory, apply one textual replacement, run the quick check with
VERIF_REPO=<scratch>, expect exit 1 with a VIOLATION line, delete the scratch
copy.  The mutants are in vlib/mutants.py."""
import os
import sys
import shutil
import tempfile
import subprocess

from .common import HOME, REPO, PROPERTIES


def run_mutant(prop, name, edits, tier='quick'):
    tmp = tempfile.mkdtemp(prefix='verif_mut_')
    try:
        shutil.copytree(REPO / 'lazy_dataset', os.path.join(tmp, 'lazy_dataset'),
                        ignore=shutil.ignore_patterns('__pycache__'))
        for rel, old, new in edits:
            p = os.path.join(tmp, rel)
            s = open(p).read()
            if s.count(old) != 1:
                return 'stale', f'pattern occurs {s.count(old)} times in {rel}'
            open(p, 'w').write(s.replace(old, new))
        env = dict(os.environ)
        env['VERIF_REPO'] = tmp
        env['VERIF_HOME'] = str(HOME)
        env['VERIF_EVIDENCE_DIR'] = os.path.join(tmp, 'evidence')
        env['VERIF_REPLAY_DIR'] = os.path.join(tmp, 'replays')
        env['PYTHONPATH'] = f'{tmp}:{HOME}'
        p = subprocess.run([str(HOME / 'verif'), 'check', prop, '--tier', tier],
                           env=env, capture_output=True, text=True, timeout=3600)
        lines = [l for l in p.stdout.splitlines() if l.startswith('VIOLATION')]
        kinds = sorted({l.split('kind=')[1].split()[0] for l in p.stdout.splitlines()
                        if l.strip().startswith('kind=')})
        if p.returncode == 1 and lines:
            return 'killed', ','.join(kinds)[:200]
        return 'survived', f'rc={p.returncode} ' + p.stdout[-300:].replace('\n', ' | ')
    finally:
        shutil.rmtree(tmp, ignore_errors=True)


def main(prop, only=None, tier='quick'):
    from .mutants import MUTANTS
    props = PROPERTIES if prop == 'ALL' else [prop]
    bad = 0
    for p in props:
        for name, edits in MUTANTS.get(p, []):
            if only and only not in name:
                continue
            status, info = run_mutant(p, name, edits, tier)
            print(f'{p} {name:45s} {status:9s} {info}', flush=True)
            if status != 'killed':
                bad += 1
    return 1 if bad else 0
