"""Lazy reference evaluator for pipeline programs (C08, C20).

It evaluates a program with the two mechanisms the property names - generators
for sequential stages and point-wise get(i) for indexable ones - calling the
*same kind* of logging user functions as the real pipeline, so its per-stage
call log is the log a demand-driven implementation produces.  It never imports
lazy_dataset.

Every node yields (key | None, value) pairs internally.
"""
import itertools

import numpy as np

from . import refmodel
from .refmodel import Unsupported, Skip, BINARY
from .terms import sid, scripted_perm


class N:
    def __init__(self, it, get=None, n=None, keys=None, bykey=None):
        self.it = it            # () -> iterator of (key, value)
        self.get = get          # i -> (key, value), 0 <= i < n
        self.n = n
        self.keys = keys        # list of keys or None
        self.bykey = bykey      # key -> value
        self.batched = False


def r_src(spec):
    kind, n = spec[0], spec[1]
    prefix = spec[3] if len(spec) > 3 else 'k'
    off = spec[4] if len(spec) > 4 else 0
    order = spec[5] if len(spec) > 5 else 'fwd'
    idx = list(range(n)) if order == 'fwd' else list(range(n - 1, -1, -1))
    vals = [off + i for i in idx]
    keys = [f'{prefix}{i}' for i in idx] if kind == 'dict' else None
    return r_fixed(vals, keys)


def r_fixed(vals, keys):
    def key(i):
        return keys[i] if keys is not None else None
    pos = {k: i for i, k in enumerate(keys)} if keys is not None else None
    return N(lambda: ((key(i), v) for i, v in enumerate(vals)),
             lambda i: (key(i), vals[i]), len(vals), keys,
             (lambda k: vals[pos[k]]) if keys is not None else None)


def r_map(u, f):
    return N(lambda: ((k, f(v)) for k, v in u.it()),
             (lambda i: (lambda kv: (kv[0], f(kv[1])))(u.get(i))) if u.get else None,
             u.n, u.keys,
             (lambda k: f(u.bykey(k))) if u.bykey else None)


def r_filter(u, p):
    def bykey(k):
        v = u.bykey(k)
        if not p(v):
            raise IndexError(k)
        return v
    return N(lambda: ((k, v) for k, v in u.it() if p(v)), None, None, None,
             bykey if u.bykey else None)


def r_slice(u, idx):
    idx = list(idx)
    keys = [u.keys[i] for i in idx] if u.keys is not None else None

    def bykey(k):
        if keys is None or k not in keys:
            raise KeyError(k)
        return u.bykey(k)
    return N(lambda: (u.get(i) for i in idx), lambda j: u.get(idx[j]), len(idx), keys,
             bykey if u.bykey else None)


def r_batch(u, size, drop):
    def it():
        cur = []
        for _, v in u.it():
            cur.append(v)
            if len(cur) >= size:
                yield None, cur
                cur = []
        if cur and not drop:
            yield None, cur
    n = None
    if u.n is not None:
        n = u.n // size if drop else -(-u.n // size)

    def get(i):
        return None, [u.get(j)[1] for j in range(i * size, min(i * size + size, u.n))]
    node = N(it, get if u.get else None, n)
    node.batched = True
    return node


def r_unbatch(u):
    return N(lambda: ((None, x) for _, b in u.it() for x in b))


def r_concat(parts):
    def get(i):
        for p in parts:
            if i < p.n:
                return p.get(i)
            i -= p.n
        raise IndexError
    ok = all(p.get is not None and p.n is not None for p in parts)
    keys = None
    if all(p.keys is not None for p in parts):
        keys = [k for p in parts for k in p.keys]

    def bykey(k):
        for p in parts:
            if k in p.keys:
                return p.bykey(k)
        raise KeyError(k)
    return N(lambda: itertools.chain.from_iterable(p.it() for p in parts),
             get if ok else None,
             sum(p.n for p in parts) if all(p.n is not None for p in parts) else None,
             keys, bykey if keys is not None and all(p.bykey for p in parts) else None)


def r_intersperse(a, b):
    order = refmodel.intersperse_order([a.n, b.n])
    parts = (a, b)

    def it():
        its = [a.it(), b.it()]
        for _, di, _ in order:
            yield next(its[di])

    def get(i):
        _, di, ei = order[i]
        return parts[di].get(ei)
    keys = None
    if a.keys is not None and b.keys is not None:
        keys = [parts[di].keys[ei] for _, di, ei in order]

    def bykey(k):
        for p in parts:
            if k in p.keys:
                return p.bykey(k)
        raise KeyError(k)
    return N(it, get if a.get and b.get else None, len(order), keys,
             bykey if keys is not None and a.bykey and b.bykey else None)


def r_zip(a, b):
    return N(lambda: ((None, (x[1], y[1])) for x, y in zip(a.it(), b.it())),
             (lambda i: (None, (a.get(i)[1], b.get(i)[1]))) if a.get and b.get else None,
             a.n)


def r_key_zip(a, b):
    keys = list(a.keys)

    def one(k):
        return (a.bykey(k), b.bykey(k))
    return N(lambda: ((k, one(k)) for k in keys),
             (lambda i: (keys[i], one(keys[i]))) if a.get and b.get else None,
             len(keys), keys, one)


def r_items(u):
    return N(lambda: ((k, (k, v)) for k, v in u.it()),
             (lambda i: (lambda kv: (kv[0], kv))(u.get(i))) if u.get else None,
             u.n, u.keys,
             (lambda k: (k, u.bykey(k))) if u.bykey else None)


def r_cycle(u):
    def it():
        while True:
            empty = True
            for x in u.it():
                empty = False
                yield x
            if empty:
                return
    return N(it, None, None, u.keys, u.bykey)


def r_by_index(u):
    """catch(): iterates by index (value path) - no own state."""
    return N(lambda: (u.get(i) for i in range(u.n)), None, None, None, u.bykey)


def r_cache(u):
    c = {}

    def get(i):
        if i not in c:
            c[i] = u.get(i)
        return c[i]

    def bykey(k):
        return get(u.keys.index(k))[1]
    return N(lambda: (get(i) for i in range(u.n)), get, u.n, u.keys,
             bykey if u.keys is not None else None)


def r_prefetcht(u):
    if u.keys is not None and u.bykey is not None:
        pass
    return N(lambda: (u.get(i) for i in range(u.n)), None, u.n)


def r_same(u):
    n = N(u.it, u.get, u.n, u.keys, u.bykey)
    n.batched = u.batched
    return n


def r_stream(u):
    """prefetch(1, b): iterates its input as a stream."""
    return N(u.it, None, u.n)


def counted(node, counter):
    """Wrap a node so that every fetch from it is counted the way the
    profiling wrapper documents it: counter[0] successful fetches, counter[1]
    fetches that raised an Exception."""
    def it():
        inner = node.it()
        while True:
            try:
                x = next(inner)
            except StopIteration:
                return
            except Exception:
                counter[1] += 1
                raise
            counter[0] += 1
            yield x

    def wrap(fn):
        if fn is None:
            return None

        def g(*a):
            try:
                r = fn(*a)
            except Exception:
                counter[1] += 1
                raise
            counter[0] += 1
            return r
        return g
    new = N(it, wrap(node.get), node.n, node.keys, wrap(node.bykey))
    new.batched = node.batched
    return new


def r_catch(u, exc):
    def it():
        for i in range(u.n):
            try:
                yield u.get(i)
            except exc:
                pass
    return N(it, None, None, None, u.bykey)


class Build:
    """Evaluates a program lazily.  `fns` provides the logging functions (same
    factory interface as programs.Fns); `scratch` receives the calls made at
    construction time by eager operations."""

    def __init__(self, fns, count=False):
        self.fns = fns
        self.lookahead = 0          # read-ahead the real pipeline may have
        self.pool_stage = False     # a thread pool may log out of order
        self.eager = False
        self.count = count
        self.trace = []             # (label, lines in the repr, counter) post-order

    def note(self, node, label, lines):
        if not self.count or lines == 0:
            return node
        counter = [0, 0]
        self.trace.append((label, lines, counter))
        return counted(node, counter)

    def run(self, prog, stage_prefix='s'):
        src = prog['src']
        u = self.note(r_src(src), 'source', 1 if src[2] == 'wu' else 2)
        for i, op in enumerate(prog['ops']):
            u = self.apply(u, op, f'{stage_prefix}{i}')
        return u

    def apply(self, u, op, stage):
        new = self._apply(u, op, stage)
        k = op[0]
        if k in ('copy', 'freeze') or (k == 'tile' and op[1] == 1):
            return new
        if k == 'ecache':
            del self.trace[:]
            return self.note(new, 'ecache-source', 2)
        return self.note(new, k, 1)

    def _apply(self, u, op, stage):
        fns = self.fns
        k = op[0]
        operand = None
        if k in BINARY:
            spec = op[1]
            if spec in ('self', 'selfmap'):
                operand = u if spec == 'self' else r_map(u, fns.fn('z', stage + 'z'))
                if self.lookahead and k != 'concat':
                    # two iterators over the same buffering pipeline are in
                    # flight at once: each has its own read-ahead, and their
                    # background threads log in no fixed order
                    self.lookahead *= 2
                    self.pool_stage = True
            else:
                operand = self.run(spec, stage_prefix=stage + 'o')
        if k in ('map', 'apply_eager'):
            new = r_map(u, fns.fn(op[1], stage))
            new.batched = False
            return new
        if k == 'parmap':
            self.lookahead += op[3] + 1
            self.pool_stage = True
            return r_map(u, fns.fn(op[1], stage))
        if k == 'filter':
            return r_filter(u, fns.pred(op[1], stage))
        if k == 'efilter':
            self.eager = True
            p = fns.pred(op[1], stage)
            idx = [i for i, (_, v) in enumerate(u.it()) if p(v)]
            return r_slice(u, idx)
        if k == 'slice':
            kind, payload = op[1], op[2]
            if kind == 'slice':
                idx = list(range(u.n))[slice(*payload)]
            elif kind in ('list', 'tuple') or kind.startswith('ndarray'):
                idx = [i % u.n if u.n else i
                       for i in refmodel.resolve_index_form(payload, u.n)]
            else:
                ks = refmodel.resolve_key_form(payload, u.keys)
                idx = [u.keys.index(kk) for kk in ks]
            return r_slice(u, idx)
        if k == 'concat3':
            mid, last = (self.run(x, stage_prefix=stage + 'c')
                         for x in refmodel.concat3_operands(op[1], op[2]))
            return r_concat([u, mid, last])
        if k in refmodel.NARY:
            raise Unsupported('n-ary operations are not evaluated lazily here')
        if k == 'groupby':
            self.eager = True
            gf = fns.groupfn(op[1], stage)
            idx = [i for i, (_, v) in enumerate(u.it()) if gf(v) == op[2]]
            return r_slice(u, idx)
        if k == 'concat':
            return r_concat([u, operand])
        if k == 'intersperse':
            return r_intersperse(u, operand)
        if k == 'zip':
            return r_zip(u, operand)
        if k == 'key_zip':
            return r_key_zip(u, operand)
        if k == 'batch':
            return r_batch(u, op[1], op[2])
        if k == 'unbatch':
            return r_unbatch(u)
        if k == 'batch_map':
            f = fns.fn(op[1], stage)
            new = r_map(u, lambda b: [f(x) for x in b])
            new.batched = True
            return new
        if k == 'items':
            return r_items(u)
        if k == 'tile':
            return u if op[1] == 1 else r_concat([u] * op[1])
        if k == 'cycle':
            return r_cycle(u)
        if k == 'shuffle':
            return r_slice(u, scripted_perm(op[1])(u.n))
        if k == 'sort':
            self.eager = True
            key = fns.sortkey(stage)
            vals = [key(v) for _, v in u.it()]
            order = [i for _, i in sorted(zip(vals, itertools.count()), reverse=op[1])]
            return r_slice(u, order)
        if k == 'sort_keyless':
            order = sorted(range(u.n), key=lambda i: u.keys[i], reverse=op[1])
            return r_slice(u, order)
        if k in ('shard', 'split'):
            parts = np.array_split(np.arange(u.n), op[1])
            return r_slice(u, [int(j) for j in parts[op[2]]])
        if k == 'cache':
            return r_cache(u)
        if k == 'ecache':
            self.eager = True
            ent = list(u.it())
            keys = [a for a, _ in ent]
            if any(a is None for a in keys) or len(set(keys)) != len(keys):
                keys = None
            return r_fixed([v for _, v in ent], keys)
        if k == 'catch':
            exc = getattr(fns, 'catch_exc', None)
            return r_catch(u, exc) if exc is not None else r_by_index(u)
        if k == 'mapguard':
            return r_map(u, fns.guard(op[1], stage))
        if k == 'mapfail':
            return r_map(u, fns.raiser(op[1], op[2], stage))
        if k in ('copy', 'freeze'):
            return r_same(u)
        if k == 'prefetch1':
            self.lookahead += op[1] + 2
            return r_stream(u)
        if k == 'prefetcht':
            self.lookahead += op[2] + 1
            self.pool_stage = True
            return r_prefetcht(u)
        raise Unsupported(f'lazy evaluator: {op!r}')
