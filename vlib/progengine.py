"""Runs pipeline programs against the real library and judges the observation
for C01 (iteration), C02 (len / indexing) and C03 (keys / items / key lookup)."""
import os
import itertools

from . import refmodel, programs, observe as ob
from .refmodel import Unsupported, Skip
from .common import stable_hash
from .programs import op_name
from .observe import is_err, err
from .common import exc_sig, jsonable


def last_op(prog):
    return op_name(prog['ops'][-1]) if prog['ops'] else 'source'


def run_case(ld, prog, aspects, prefix_hook=None, watchdog_s=8):
    """Returns (status, model|reason, observation|None).
    status in ok | unsupported | skip | build-error | watchdog"""
    status, m = programs.classify(prog)
    if status == 'skip':
        return 'skip', None, None
    try:
        with ob.watchdog(watchdog_s):
            try:
                ds = programs.build(ld, prog, hook=prefix_hook)
            except ob.Watchdog:
                raise
            except BaseException as e:
                return ('build-error', m, {'build': err(e), 'msg': exc_sig(e)})
            if status == 'ok':
                finite = m.finite
                limit = (m.n + 3) if finite else (2 * m.n + 1)
            else:
                finite = not any(o[0] == 'cycle' for o in prog['ops'])
                limit = 24
            o = ob.observe(ds, limit, aspects=aspects, finite=finite)
            o['ds_ref'] = ds
            if 'scramble' in aspects and status == 'ok' and m.finite:
                # a fresh build whose *first* accesses are out of order (point
                # accesses from both ends, by key where offered), then a plain
                # iteration: earlier accesses must not change what iteration
                # yields (caches filled out of order, memoised keys, ...)
                ds2 = programs.build(ld, prog)
                n = m.n
                order = []
                lo_, hi_ = 0, n - 1
                while lo_ <= hi_:
                    order.append(hi_)
                    if lo_ != hi_:
                        order.append(lo_ - n)
                    lo_, hi_ = lo_ + 1, hi_ - 1
                pre = []
                if m.indexable and m.sized:
                    pre = [ob.guarded(lambda: ds2[i]) for i in order]
                if m.bykey and m.labelstate == 'unique':
                    pre += [ob.guarded(lambda: ds2[k]) for k in reversed(m.labels)]
                ob.guarded(lambda: tuple(ds2.keys()))
                o['scramble'] = (order, pre, ob.take(ds2, limit))
            if 'interleave' in aspects and status == 'ok' and m.finite \
                    and stable_hash(repr(prog)) % 3 == 1:
                # two iterators over the SAME dataset object, advanced in an
                # uneven rhythm (2 steps / 1 step), the second one closed half
                # way and a third one started then: whatever an iteration
                # needs is its own
                d3 = programs.build(ld, prog)

                def uneven():
                    a, b = iter(d3), iter(d3)
                    oa, ob, oc = [], [], []
                    c = None
                    for step in range(2 * m.n + 6):
                        for _ in range(2):
                            try:
                                oa.append(next(a))
                            except StopIteration:
                                pass
                        if b is not None:
                            try:
                                ob.append(next(b))
                            except StopIteration:
                                pass
                            if len(ob) >= max(1, m.n // 2):
                                close = getattr(b, 'close', None)
                                if close:
                                    close()
                                b = None
                                c = iter(d3)
                        elif c is not None:
                            try:
                                oc.append(next(c))
                            except StopIteration:
                                c = None
                    return oa, ob, oc
                o['interleave'] = ob.guarded(uneven)
            # (in the thorough tier, with some twenty times as many programs,
            # the two aspects below are taken for a fifth of their quick share)
            thin = 5 if os.environ.get('VERIF_SHARD_TIER') == 'thorough' else 1
            if 'interleave' in aspects and status == 'ok' and m.finite \
                    and stable_hash(repr(prog)) % (3 * thin) == 2:
                # benign operations between two next() calls: an iteration is
                # suspended after k examples, five operations that only look
                # at the dataset (or are refused) are carried out on the same
                # object, the iteration goes on, and a fresh one follows.
                # Nothing of that is a use that may change what is delivered.
                d4 = programs.build(ld, prog)
                h = stable_hash(repr(prog))

                def disturbed():
                    import gc
                    import copy as _copy
                    import pickle
                    n = m.n
                    benign = [
                        ('len', lambda: len(d4)), ('keys', lambda: d4.keys()),
                        ('first-of-items', lambda: next(iter(d4.items()))),
                        ('copy', lambda: d4.copy()),
                        ('frozen-copy', lambda: d4.copy(freeze=True)),
                        ('repr', lambda: repr(d4)), ('indexable', lambda: d4.indexable),
                        ('ordered', lambda: d4.ordered), ('get-0', lambda: d4[0]),
                        ('get-last', lambda: d4[-1]), ('get-out-of-range', lambda: d4[n]),
                        ('get-absent-key', lambda: d4['absent-key']),
                        ('unstarted-iterator', lambda: iter(d4)),
                        ('first-of-iter', lambda: next(iter(d4))),
                        ('pickle', lambda: pickle.dumps(d4)),
                        ('deepcopy', lambda: _copy.deepcopy(d4)),
                        ('slice', lambda: d4[:1]), ('pass-over-copy', lambda: list(d4.copy())),
                        ('get-from-slice', lambda: d4[1:][0]), ('collect', gc.collect),
                        ('unstarted-items-iterator', lambda: iter(d4.items())),
                        ('get-from-frozen-copy', lambda: d4.copy(freeze=True)[0]),
                        ('contains', lambda: 'absent-key' in d4.keys()),
                        ('items-by-index', lambda: d4.items()[0]),
                    ]
                    it = iter(d4)
                    head = list(itertools.islice(it, (h // 3) % (n + 1)))
                    chosen = [benign[(h // (7 + 4 * j)) % len(benign)] for j in range(5)]
                    for _, f in chosen:
                        ob.guarded(f)
                    return head + list(it), [c[0] for c in chosen], ob.take(d4, limit)
                o['disturbed'] = ob.guarded(disturbed)
            if 'neighbour' in aspects and status == 'ok' and m.finite \
                    and len(prog['src']) <= 3 and stable_hash(repr(prog)) % 3 == 0:
                # a second pipeline, built from the same program over a source
                # with the same keys but other values, is alive and consumed in
                # lock step: neither may see the other's examples (state kept
                # per class instead of per object, shared default arguments)
                # (same keys / other keys in turn: a store shared per class is
                # visible with equal keys, a shared key tuple with different ones)
                prog_b = {'src': tuple(prog['src'][:3])
                          + ('k' if stable_hash(repr(prog)) % 2 else 'n', 1000),
                          'ops': prog['ops']}
                sb, mb = programs.classify(prog_b)
                if sb == 'ok' and mb.finite:
                    # building the pipeline a second time / beside a
                    # neighbour is part of what is observed: a refusal here
                    # (the first build went through) is interference
                    built = ob.guarded(lambda: (programs.build(ld, prog),
                                                programs.build(ld, prog_b)))
                    if ob.is_err(built):
                        o['neighbour'] = (built, list(mb.values), built, None)
                        return status, m, o
                    da, db = built

                    def lockstep():
                        ia, ib = iter(da), iter(db)
                        outs = ([], [])
                        live = [ia, ib]
                        for _ in range(max(m.n, mb.n) + 3):
                            for j, it in enumerate((ia, ib)):
                                if it in live:
                                    try:
                                        outs[j].append(next(it))
                                    except StopIteration:
                                        live.remove(it)
                        return outs
                    o['neighbour'] = (ob.guarded(lockstep), list(mb.values),
                                      ob.guarded(lambda: (tuple(da.keys()), tuple(db.keys()))),
                                      (list(mb.labels) if mb.listable
                                       and mb.labelstate != 'none' else None))
            if 'neighbour' in aspects and status == 'ok' and m.finite \
                    and len(prog['src']) <= 3 and stable_hash(repr(prog)) % (6 * thin) == 2:
                # object lifetime: only a copy of the pipeline survives (the
                # original and its source are released), then the same program
                # is built over a source with other keys / another key order.
                # Tables keyed by id() or by address outlive their owner
                # through such an orphaned copy and are met again by the
                # successor that is allocated at the freed address.
                prog_b = {'src': tuple(prog['src'][:3])
                          + ('k' if stable_hash(repr(prog)) % 2 else 'n', 1000),
                          'ops': prog['ops']}
                sb, mb = programs.classify(prog_b)
                if sb == 'ok' and mb.finite:
                    def successor():
                        import gc
                        d0 = programs.build(ld, prog)
                        orphan = d0.copy(freeze=bool(stable_hash(repr(prog)) % 5 == 0))
                        del d0
                        gc.collect(0)
                        outs = []
                        for _ in range(2):
                            d1 = programs.build(ld, prog_b)
                            outs.append(list(d1))
                            del d1
                        return list(orphan), outs
                    o['successor'] = (ob.guarded(successor), list(mb.values))
            return status, m, o
    except ob.Watchdog:
        return 'watchdog', m, None


def expected_iter(m, limit):
    if m.finite:
        return (list(m.values), False)
    vals = list(itertools.islice(itertools.cycle(m.values), limit))
    return (vals, True)


# ------------------------------------------------------------------- C01
def judge_c01(prog, status, m, o, res):
    case = {'prog': prog}
    lo = last_op(prog)
    if status == 'build-error':
        if isinstance(m, refmodel.M):
            res.violation('refused-supported-composition', case,
                          {'at': 'build', 'error': o['msg']},
                          sig={'last_op': lo, 'exc': o['build'][1]})
        else:
            res.count('refusals_of_unsupported')
        return False
    if status == 'unsupported':
        if is_err(o['iter1']):
            res.count('refusals_of_unsupported')
        else:
            res.count('unsupported_but_accepted')
            res.seen('unsupported_but_accepted_ops', lo)
        return False
    limit = (m.n + 3) if m.finite else (2 * m.n + 1)
    want = expected_iter(m, limit)
    it1 = o['iter1']
    if is_err(it1):
        res.violation('refused-supported-composition', case,
                      {'at': 'iteration', 'error': it1},
                      sig={'last_op': lo, 'exc': it1[1]})
        return True
    res.count('iterations_compared')
    if (list(it1[0]), it1[1]) != (want[0], want[1]):
        res.violation('iteration-differs-from-reference', case,
                      {'got': it1, 'want': want}, sig={'last_op': lo})
        return True
    for name, kind in (('iter2', 'second-iteration-differs'),
                       ('again', 'iteration-after-other-accesses-differs')):
        if o.get(name) != it1:
            res.violation(kind, case, {'first': it1, name: o.get(name)},
                          sig={'last_op': lo})
            return True
    if 'scramble' in o:
        res.count('iterations_after_scrambled_access_compared')
        order, pre, it3 = o['scramble']
        if it3 != it1:
            res.violation('iteration-after-out-of-order-access-differs', case,
                          {'first_accesses': order, 'then_iterated': it3, 'want': it1},
                          sig={'last_op': lo})
            return True
        if m.indexable and m.sized:
            wantpre = [want[0][i] for i in order]
            if pre[:len(order)] != wantpre:
                res.violation('out-of-order-access-differs', case,
                              {'indices': order, 'got': pre[:len(order)], 'want': wantpre},
                              sig={'last_op': lo})
                return True
    if 'interleave' in o:
        res.count('interleaved_iterators_compared')
        got = o['interleave']
        w = want[0]
        if is_err(got) or list(got[0]) != w or list(got[1]) != w[:len(got[1])] \
                or list(got[2]) != w[:len(got[2])] or (m.n >= 2 and not got[1]):
            res.violation('interleaved-iterators-differ', case,
                          {'first': got if is_err(got) else got[0],
                           'second_until_closed': None if is_err(got) else got[1],
                           'third_started_later': None if is_err(got) else got[2],
                           'want': w}, sig={'last_op': lo})
            return True
    if 'neighbour' in o:
        res.count('lockstep_neighbour_pipelines_compared')
        got, want_b, ks, labels_b = o['neighbour']
        if labels_b is not None and m.listable and not is_err(ks) and \
                (list(ks[0]) != list(m.labels) or list(ks[1]) != labels_b):
            res.violation('pipelines-interfere', case,
                          {'keys': ks, 'want': (m.labels, labels_b)},
                          sig={'last_op': lo, 'aspect': 'keys'})
            return True
        if is_err(got) or list(got[0]) != want[0] or list(got[1]) != want_b:
            res.violation('pipelines-interfere', case,
                          {'this': got if is_err(got) else got[0], 'want': want[0],
                           'neighbour': None if is_err(got) else got[1],
                           'neighbour_want': want_b}, sig={'last_op': lo})
            return True
    if 'disturbed' in o:
        res.count('suspended_iterations_with_benign_operations_in_between')
        got = o['disturbed']
        if is_err(got) or list(got[0]) != want[0] or got[2] != it1:
            res.violation('iteration-disturbed-by-benign-operations', case,
                          {'suspended_iteration': got if is_err(got) else got[0],
                           'want': want[0],
                           'operations_in_between': None if is_err(got) else got[1],
                           'fresh_iteration_afterwards': None if is_err(got) else got[2]},
                          sig={'last_op': lo, 'aspect': 'benign-operations'})
            return True
    if 'successor' in o:
        res.count('successors_of_released_pipelines_compared')
        got, want_b = o['successor']
        if is_err(got) or list(got[0]) != want[0] or \
                any(list(x) != want_b for x in got[1]):
            res.violation('pipelines-interfere', case,
                          {'orphaned_copy': got if is_err(got) else got[0], 'want': want[0],
                           'successors': None if is_err(got) else got[1],
                           'successors_want': want_b},
                          sig={'last_op': lo, 'aspect': 'successor'})
            return True
    if 'partial' in o:
        res.count('partial_then_full_compared')
        if o['partial'][1] != it1:
            res.violation('full-iteration-after-partial-differs', case,
                          {'first': it1, 'partial': o['partial']},
                          sig={'last_op': lo})
            return True
    if m.copyable:
        res.count('copies_compared')
        if o.get('copy_iter') != it1:
            res.violation('copy-iterates-differently', case,
                          {'first': it1, 'copy': o.get('copy_iter')},
                          sig={'last_op': lo})
            return True
    if m.sized and m.finite:
        if o['len'] != m.n:
            res.violation('len-differs-from-reference', case,
                          {'len': o['len'], 'want': m.n}, sig={'last_op': lo})
    return True


def items_over_dup(prog):
    """True iff some items() in the program sits on duplicated key labels."""
    for i, op in enumerate(prog['ops']):
        if op[0] == 'items':
            try:
                if refmodel.run(prog, upto=i).labelstate == 'dup':
                    return True
            except (Unsupported, Skip):
                return False
    return False


# ------------------------------------------------------------------- C02
def judge_c02(prog, finite, o, res, labels='?'):
    if any(op[0] == 'cycle' for op in prog['ops']):
        return False          # the statement is about finite datasets
    """Antecedents come from the library itself: ds.indexable / len(ds)."""
    case = {'prog': prog}
    lo = last_op(prog)
    it1 = o.get('iter1')
    ln = o['len']
    la = o.get('len_again', ln)
    if is_err(ln) != is_err(la) or (not is_err(ln) and ln != la):
        res.violation('len-changes-between-calls', case, {'first': ln, 'again': la},
                      sig={'last_op': lo})
        return True
    if finite and is_err(it1) and o.get('indexable') is True and not is_err(o.get('len')) \
            and labels != '?':
        # iteration fails although the dataset calls itself indexable, has a
        # length and (checked here) every index in range can be fetched
        ln = o['len']
        probes = [ob.guarded(lambda i=i: o['ds_ref'][i]) for i in range(ln)] \
            if 'ds_ref' in o else None
        if probes is not None and not any(is_err(p) for p in probes):
            res.count('indexable_datasets_checked')
            res.violation('iteration-raised-although-every-index-works', case,
                          {'iteration': it1, 'len': ln}, sig={'last_op': lo, 'exc': it1[1]})
            return True
        return False
    if not finite or it1 is None or is_err(it1) or it1[1]:
        return False
    seq = it1[0]
    n = len(seq)
    ln = o['len']
    if o['indexable'] is True:
        res.count('indexable_datasets_checked')
        if is_err(ln):
            res.violation('indexable-without-len', case, {'len': ln},
                          sig={'last_op': lo, 'exc': ln[1]})
            return True
        if ln != n:
            res.violation('len-differs-from-iteration', case,
                          {'len': ln, 'iterated': n}, sig={'last_op': lo})
            return True
        gets = o.get('get', {})
        for i in range(-n - 2, n + 2):
            for variant, g in zip(('int', 'np.int64', 'np.int32', 'narrowest numpy int'), gets[i]):
                res.count('index_probes')
                if -n <= i < n:
                    if is_err(g):
                        res.violation('valid-index-raised', {**case, 'index': i},
                                      {'error': g, 'type': variant, 'n': n},
                                      sig={'last_op': lo, 'exc': g[1],
                                           'labels': labels,
                                           'items_over_dup': items_over_dup(prog),
                                           'int_type': variant
                                           if variant != 'int' and not is_err(gets[i][0]) else 'any'})
                        return True
                    if g != seq[i]:
                        res.violation('index-differs-from-iteration',
                                      {**case, 'index': i},
                                      {'got': g, 'want': seq[i], 'type': variant},
                                      sig={'last_op': lo,
                                           'negative': i < 0})
                        return True
                else:
                    if not is_err(g):
                        res.violation('out-of-range-index-returned',
                                      {**case, 'index': i},
                                      {'got': g, 'n': n, 'type': variant},
                                      sig={'last_op': lo})
                        return True
                    res.seen('out_of_range_exception_types', g[1])
                    if g[1] != 'IndexError':
                        res.violation('out-of-range-not-IndexError',
                                      {**case, 'index': i},
                                      {'error': g, 'n': n, 'type': variant},
                                      sig={'last_op': lo, 'exc': g[1], 'labels': labels,
                                           'items_over_dup': items_over_dup(prog)})
                        return True
        return True
    if not is_err(ln):
        res.count('sized_nonindexable_checked')
        if ln != n:
            res.violation('len-differs-from-iteration', case,
                          {'len': ln, 'iterated': n, 'indexable': False},
                          sig={'last_op': lo, 'indexable': False})
        return True
    return False


# ------------------------------------------------------------------- C03
def removed_by(prog, key):
    """Name of the first operation after which `key` is no longer a label."""
    try:
        prev = refmodel.source(prog['src'])
    except Exception:
        return 'unknown'
    if key not in prev.labels:
        present = False
    else:
        present = True
    if not present:
        # maybe introduced by a later concatenation; find last presence
        pass
    last_present = present
    name = 'never-present'
    for i in range(1, len(prog['ops']) + 1):
        try:
            cur = refmodel.run(prog, upto=i)
        except (Unsupported, Skip):
            return name if not last_present else 'unknown'
        now = key in cur.labels
        if last_present and not now:
            name = op_name(prog['ops'][i - 1])
        last_present = now
    return name


def judge_items(case, m, items_obs, res, lo, where):
    L = m.labelstate
    if is_err(items_obs):
        if m.items and L != 'none':
            res.violation('items-refused', case, {'error': items_obs, 'where': where},
                          sig={'last_op': lo, 'exc': items_obs[1]})
            return True
        res.count('items_refusals')
        res.seen('items_refusal_types', items_obs[1])
        return False
    got, more = items_obs
    res.count('items_compared')
    if L == 'none':
        if got:
            res.violation('items-without-keys', case, {'items': got[:4], 'where': where},
                          sig={'last_op': lo})
            return True
        return False
    want = [(k, v) for k, v in m.entries]
    if not m.finite:
        want = list(itertools.islice(itertools.cycle(want), len(got)))
    if list(got) != want:
        res.violation('items-differ', case, {'got': got[:6], 'want': want[:6],
                                             'where': where}, sig={'last_op': lo})
        return True
    return False


def judge_c03(prog, status, m, o, res):
    case = {'prog': prog}
    lo = last_op(prog)
    if status != 'ok' or not m.finite:
        return False
    L = m.labelstate
    labels = m.labels
    # ---- keys()
    ks = o['keys']
    if is_err(ks):
        if m.listable and L == 'unique':
            res.violation('keys-refused', case, {'error': ks},
                          sig={'last_op': lo, 'exc': ks[1]})
            return True
        res.count('keys_refusals')
    else:
        res.count('keys_compared')
        if L == 'none':
            res.count('keys_offered_beyond_model')
        elif list(ks) != labels:
            res.violation('keys-differ', case, {'keys': ks, 'want': labels},
                          sig={'last_op': lo})
            return True
    # ---- items()
    if judge_items(case, m, o['items'], res, lo, 'result'):
        return True
    # ---- ds[key]
    for key, got in o['bykey'].items():
        present = key in labels
        res.count('key_lookups')
        if not present:
            if not is_err(got):
                res.violation('absent-key-returned', {**case, 'key': key},
                              {'returned': got},
                              sig={'last_op': lo,
                                   'removed_by': removed_by(prog, key)})
                return True
            res.seen('absent_key_exception_types', got[1])
            continue
        vals = [v for k, v in m.entries if k == key]
        if is_err(got):
            if m.bykey and L == 'unique':
                res.violation('key-lookup-refused', {**case, 'key': key},
                              {'error': got}, sig={'last_op': lo, 'exc': got[1]})
                return True
            continue
        if got not in vals:
            res.violation('key-lookup-wrong-example', {**case, 'key': key},
                          {'got': got, 'want': vals}, sig={'last_op': lo})
            return True
    return True
