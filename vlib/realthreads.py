"""Real threads, real primitives: the same scenarios and history checkers as the
controlled scheduler, with perturbation instead of control.

* sys.monitoring LINE callbacks on every code object of
  lazy_dataset/parallel_utils.py yield (time.sleep(0)) or sleep 0-2 ms with a
  seeded probability - yield injection at existing switch points only;
* the instrumented user functions sleep for seeded short times;
* the consumer pauses between reads with a seeded probability.
Termination is judged logically: a watcher samples the event counter; a *hang*
is "no event for the grace period and the consumer parked in a blocking
primitive", with all stacks as witness; a watcher firing in any other state is
inconclusive.
"""
import os
import sys
import time
import random
import threading
import traceback

from . import conc

TOOL = 3


class RealWorld:
    STOP = ()

    def __init__(self, seed, p_sleep=0.25):
        self.lock = threading.Lock()
        self.events = []
        self.seed = seed
        self.p_sleep = p_sleep
        self.tl = threading.local()
        self.main_ident = threading.get_ident()
        self.before = set(threading.enumerate())
        self.last_event = time.monotonic()

    def _rng(self):
        r = getattr(self.tl, 'rng', None)
        if r is None:
            with self.lock:
                idx = len(self.events)
            r = self.tl.rng = random.Random(f'{self.seed}:{threading.current_thread().name}:{idx}')
        return r

    def ev(self, *a):
        t = threading.current_thread()
        name = 'main' if threading.get_ident() == self.main_ident else t.name
        with self.lock:
            self.events.append((name,) + a)
            self.last_event = time.monotonic()

    def preempt(self, loc=None):
        r = self._rng()
        x = r.random()
        if x < self.p_sleep:
            time.sleep(r.random() * 0.002)
        elif x < 2 * self.p_sleep:
            time.sleep(0)

    def mark(self):
        with self.lock:
            return len(self.events)

    def quiesce(self, grace=3.0):
        """Wait (bounded) for the threads this scenario created to finish."""
        # (ten times the grace before threads that are still there count as
        # left behind: the limit is wall clock and the machine may be busy)
        t0 = time.monotonic()
        while time.monotonic() - t0 < 10 * grace:
            left = [t for t in threading.enumerate()
                    if t not in self.before and t.is_alive()
                    and not t.name.startswith('verif-')]
            if not left:
                return []
            time.sleep(0.005)
        frames = sys._current_frames()
        out = []
        for t in left:
            f = frames.get(t.ident)
            where = traceback.format_stack(f)[-1].strip().splitlines()[0] if f else '?'
            out.append((t.name, where))
        return out


_PERTURB = {'on': False, 'p': 0.0, 'seed': 0}


def _code_objects(module):
    seen, out = set(), []

    def walk(code):
        if id(code) in seen:
            return
        seen.add(id(code))
        out.append(code)
        for c in code.co_consts:
            if hasattr(c, 'co_code'):
                walk(c)
    for v in vars(module).values():
        code = getattr(v, '__code__', None)
        if code is not None and code.co_filename == module.__file__:
            walk(code)
    return out


def install_perturbation(pu, seed, p):
    """LINE callbacks on parallel_utils.py that yield or sleep with prob. p."""
    mon = sys.monitoring
    try:
        mon.use_tool_id(TOOL, 'verif-yield-injection')
    except ValueError:
        pass
    tl = threading.local()
    counter = [0]

    def on_line(code, line):
        r = getattr(tl, 'rng', None)
        if r is None:
            r = tl.rng = random.Random(f'{seed}:{threading.get_ident() % 997}')
        counter[0] += 1
        x = r.random()
        if x < p:
            time.sleep(r.random() * 0.0015)
        elif x < 3 * p:
            time.sleep(0)
    mon.register_callback(TOOL, mon.events.LINE, on_line)
    for code in _code_objects(pu):
        mon.set_local_events(TOOL, code, mon.events.LINE)
    return counter


class Hang(Exception):
    pass


def run(sc, seed, grace=45.0, on_hang=None):
    """One perturbed real-thread execution.  Returns a result dict shaped like
    conc.run's.  `on_hang(info)` is called from the watcher thread when the
    consumer is parked for longer than `grace` without any event."""
    e = conc.env(shim=False)
    world = RealWorld(seed)
    raised_objs = []
    body = conc.make_body(sc, e, raised_objs)
    done = threading.Event()
    hang = {}

    def watch():
        while not done.wait(0.25):
            if time.monotonic() - world.last_event > grace:
                frames = sys._current_frames()
                stacks = {}
                for t in threading.enumerate():
                    f = frames.get(t.ident)
                    if f is not None:
                        stacks[t.name] = [l.strip() for l in
                                          traceback.format_stack(f)[-4:]]
                mainf = frames.get(world.main_ident)
                top = traceback.format_stack(mainf)[-1] if mainf else ''
                blocked = any(k in top for k in ('threading.py', 'queue.py',
                                                 'concurrent/futures', '_base.py'))
                hang.update(stacks=stacks, consumer_blocked=blocked)
                if on_hang:
                    on_hang(hang)
                return
    w = threading.Thread(target=watch, name='verif-watch', daemon=True)
    w.start()
    res = {'deadlock': None, 'steplimit': False, 'hang': None}
    try:
        delivered, outcome, mark, alive = body(world)
        res.update(delivered=delivered, outcome=outcome, mark=mark, alive=alive)
    finally:
        done.set()
    res.update(events=list(world.events), nchoices=0, nsteps=0, shim_ops={},
               max_enabled=0, choices=[seed], raised_objs=raised_objs)
    return res
