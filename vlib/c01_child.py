"""Child process for C01: eager operations (keyed iteration, new(ds),
cache(lazy=False)) and plain epochs over a parallel stage with a process
backend, over a source with keys and over one without.

    python -m vlib.c01_child '<json: backend, via, keyed>'

Prints one line RESULT <json>."""
import sys
import json
import operator


def main(arg):
    sc = json.loads(arg)
    from vlib.common import import_lazy_dataset
    ld = import_lazy_dataset()
    n = 6
    src = ld.new({f'k{i}': i for i in range(n)}) if sc['keyed'] else ld.new(list(range(n)))
    fn = operator.neg                       # picklable by every backend
    if sc['via'] == 'parmap':
        ds = src.map(fn, num_workers=2, buffer_size=3, backend=sc['backend'])
    else:
        ds = src.map(fn).prefetch(2, 3, sc['backend'])
    out = {}

    def attempt(name, f):
        try:
            out[name] = ['ok', f()]
        except BaseException as e:
            out[name] = ['raised', type(e).__name__]
    attempt('epoch1', lambda: list(ds))
    attempt('epoch2', lambda: list(ds))
    attempt('items', lambda: [list(p) for p in ds.items()])
    attempt('new', lambda: list(ld.new(ds)))
    attempt('new-len', lambda: len(ld.new(ds)))
    attempt('eager-cache', lambda: list(ds.cache(lazy=False)))
    attempt('epoch3', lambda: list(ds))
    sys.stdout.write('RESULT ' + json.dumps(out) + '\n')
    sys.stdout.flush()


if __name__ == '__main__':
    main(sys.argv[1])
