"""C19 - the database layer builds correct, isolated datasets from its source.

Differential monitor against a small model ("merge the parts, resolve the
alias") over generated database descriptions and request sequences:
  values      list(get_dataset(x)) == model, keys()/len agree
  isolation   deep comparison of every source dict before/after all requests
              (an absent 'alias' section is normalised to {})
  sharing     get_dataset(name) is get_dataset(name) while a reference is held;
              members of a list request are the shared single-name datasets
  rejection   duplicate dataset/alias names across parts, overlapping example
              ids inside an alias, unknown names, empty datasets
  pickle      pickle round trip of a JsonDatabase answers identically
"""
import gc
import os
import copy
import json
import pickle
import shutil
import tempfile
import itertools

from ..common import import_lazy_dataset, exc_sig, rng_for

PROPERTY = 'C19'
LEVEL = 'exploration'
RULE = ('descriptions: 1..3 datasets of 0..2 examples, 0..2 aliases, split into '
        '1..3 parts in every way, alias section present/absent, extra top-level '
        'keys, duplicate-name and overlapping-id variants; enumerated and strided '
        'by the seed (thorough: all); request sequences over names, aliases, '
        'lists, unknown names with gc in between; dict and JSON backed. '
        'non-trivial iff at least two parts or an alias is involved; distinct by '
        '(description, backend, requests)')
ASSUMPTIONS = ['stored examples do not contain the keys example_id / dataset',
               'a dataset and an alias of the same name inside one part is not generated']
SHARD_TIMEOUT = {'quick': 300, 'thorough': 3000}
LIMITS = {'quick': dict(stride=23, nreq=3), 'thorough': dict(stride=1, nreq=5)}

REJECT = 'REJECT'


# ------------------------------------------------------------------ model
def model_merge(parts):
    datasets, alias = {}, {}
    for pi, p in enumerate(parts):
        names = set(datasets) | set(alias)
        if pi > 0:
            if set(p) - {'datasets', 'alias'}:
                return REJECT
            if set(p['datasets']) & names:
                return REJECT
            if set(p.get('alias', {})) & names:
                return REJECT
        datasets.update(p['datasets'])
        alias.update(p.get('alias', {}))
    return datasets, alias


def model_get(merged, name):
    if merged == REJECT:
        return REJECT
    datasets, alias = merged
    if isinstance(name, (list, tuple)):
        out = []
        for n in name:
            r = model_get(merged, n)
            if r == REJECT:
                return REJECT
            out += r
        return out
    if name in alias:
        ex = {}
        for member in alias[name]:
            if member not in datasets:
                return REJECT
            new = datasets[member]
            if set(ex) & set(new):
                return REJECT
            ex = {**ex, **new}
    elif name in datasets:
        ex = dict(datasets[name])
    else:
        return REJECT
    if not ex:
        return REJECT
    return [{**v, 'example_id': k, 'dataset': name} for k, v in ex.items()]


# ------------------------------------------------------------ generation
def descriptions():
    """Yield (parts, label).  Deterministic order."""
    for nd in (1, 2, 3):
        for sizes in itertools.product((0, 1, 2), repeat=nd):
            if sum(1 for s in sizes if s == 0) > 1:
                continue
            for overlap in (False, True):
                if overlap and (nd < 2 or min(sizes[:2]) == 0):
                    continue
                ds = {}
                for d, s in enumerate(sizes):
                    ds[f'd{d}'] = {
                        (f'x{e}' if overlap and d < 2 else f'd{d}e{e}'):
                            # (stored examples that already carry an
                            # 'example_id' / 'dataset' field - e.g. exported
                            # from another database - get the id and the
                            # name they are requested under)
                            {'v': d * 10 + e, 'nested': {'l': [d, e]},
                             **({'dataset': 'exported-from-elsewhere'} if e == 1 else {}),
                             **({'example_id': f'old-id-{e}'} if d == 1 else {})}
                        for e in range(s)}
                alias_sets = [()]
                names = list(ds)
                alias_sets += [((('a0', tuple(names)),))]
                if nd >= 2:
                    alias_sets += [(('a0', (names[1], names[0])),),
                                   (('a0', (names[0],)), ('a1', tuple(names[::-1])))]
                for aliases in alias_sets:
                    objs = [('d', n) for n in names] + [('a', a) for a, _ in aliases]
                    for P in (1, 2, 3):
                        for assign in itertools.product(range(P), repeat=len(objs)):
                            if P > 1 and set(assign) != set(range(P)) and \
                                    len(objs) >= P:
                                continue
                            for alias_present in (False, True):
                                for extra in (None, 'dict', 'list', 'scalar'):
                                    if extra and P == 1 and alias_present:
                                        continue
                                    parts = [{'datasets': {}} for _ in range(P)]
                                    for (kind, nm), pi in zip(objs, assign):
                                        if kind == 'd':
                                            parts[pi]['datasets'][nm] = ds[nm]
                                        else:
                                            members = dict(aliases)[nm]
                                            parts[pi].setdefault('alias', {})[nm] = list(members)
                                    if alias_present:
                                        for p in parts:
                                            p.setdefault('alias', {})
                                    if extra == 'dict':
                                        parts[0]['meta'] = {'a': 1}
                                    elif extra == 'list':
                                        parts[0]['meta'] = [1, 2]
                                    elif extra == 'scalar':
                                        parts[0]['version'] = 3
                                    yield parts, None
    # duplicate-name variants (must be rejected)
    d = {'e0': {'v': 1}}
    yield [{'datasets': {'d0': d}}, {'datasets': {'d0': {'e1': {'v': 2}}}}], 'dup-dataset'
    yield [{'datasets': {'d0': d}, 'alias': {'a0': ['d0']}},
           {'datasets': {'d1': {'e1': {'v': 2}}}, 'alias': {'a0': ['d1']}}], 'dup-alias'
    yield [{'datasets': {'d0': d}, 'alias': {'a0': ['d0']}},
           {'datasets': {'a0': {'e1': {'v': 2}}}}], 'dataset-named-like-alias'
    yield [{'datasets': {'d0': d}},
           {'datasets': {'d1': {'e1': {'v': 2}}}, 'alias': {'d0': ['d1']}}], 'alias-named-like-dataset'
    yield [{'datasets': {'d0': d}}, {'datasets': {'d1': d}, 'extra': {}}], 'extra-key-in-later-part'
    yield [{'datasets': {'d0': d}}, {'datasets': {'d1': d}},
           {'datasets': {'d0': {'e9': {'v': 9}}}}], 'dup-dataset-third-part'
    # every way of re-using one name in two of 2..4 merged parts: as dataset or
    # alias in the earlier part x as dataset or alias in the later part
    for P in (2, 3, 4):
        for i in range(P):
            for j in range(i + 1, P):
                for ki in ('dataset', 'alias'):
                    for kj in ('dataset', 'alias'):
                        parts = [{'datasets': {f'base{q}': {f'b{q}e0': {'v': q}}}}
                                 for q in range(P)]
                        for q, kind in ((i, ki), (j, kj)):
                            if kind == 'dataset':
                                parts[q]['datasets']['name'] = {f'n{q}e0': {'v': 50 + q}}
                            else:
                                parts[q].setdefault('alias', {})['name'] = [f'base{q}']
                        yield parts, f'dup-{ki}@{i}-{kj}@{j}-of-{P}'


def requests_for(parts, rng, nreq):
    names = []
    for p in parts:
        names += list(p['datasets']) + list(p.get('alias', {}))
    names = list(dict.fromkeys(names))
    pool = list(names) + ['nope']
    if 'name' in names:
        pool += ['name', 'name']
    if len(names) >= 2:
        pool.append([names[0], names[1]])
        pool.append((names[-1], names[0]))
    pool.append([names[0]] if names else ['nope'])
    seqs = []
    for _ in range(2):
        seqs.append([rng.choice(pool) for _ in range(nreq)])
    seqs.append(list(names) + list(names[:1]))
    return seqs


# ------------------------------------------------------------ observation
def norm(parts):
    out = copy.deepcopy(parts)
    for p in out:
        p.setdefault('alias', {})
    return out


def observe_ds(ds):
    vals = list(ds)
    o = {'values': vals, 'len': len(ds)}
    try:
        o['keys'] = list(ds.keys())
    except BaseException as e:
        o['keys'] = ('raised', type(e).__name__)
    return o


def check(ld, parts, label, backend, reqs, hold, res, tmpdir):
    from lazy_dataset import database as dbm
    case = {'parts': parts, 'backend': backend, 'requests': reqs, 'hold': hold,
            'label': label}
    merged = model_merge(parts)
    nontrivial = len(parts) >= 2 or any(p.get('alias') for p in parts)
    res.case((json.dumps(parts, sort_keys=True), backend, json.dumps(reqs), hold),
             nontrivial)
    sig = {'backend': backend}
    pristine = copy.deepcopy(parts)
    # a neighbour: another database object, alive at the same time, with the
    # same dataset and alias names but other examples; its datasets are held
    # while `db` is queried.  Neither may answer from the other's source.
    nheld, nmerged = {}, None
    if hold and merged != REJECT:
        nparts = copy.deepcopy(parts)
        for p_ in nparts:
            for exs in p_['datasets'].values():
                for k_ in list(exs):
                    exs[k_] = {**exs[k_], 'neighbour': True}
                    exs['nb_' + k_] = {'neighbour': 'extra'}
        nmerged = model_merge(nparts)
        try:
            ndb = dbm.DictDatabase(*nparts)
            for name in list(nmerged[0]) + list(nmerged[1]):
                if model_get(nmerged, name) != REJECT:
                    nheld[name] = ndb.get_dataset(name)
        except BaseException as e:
            res.violation('legal-description-refused', {**case, 'neighbour': True},
                          exc_sig(e), sig={**sig, 'label': label, 'exc': type(e).__name__})
            return
    try:
        if backend == 'dict':
            db = dbm.DictDatabase(*parts) if len(parts) != 2 else dbm.DictDatabase(list(parts))
        else:
            paths = []
            for i, p in enumerate(parts):
                path = os.path.join(tmpdir, f'p{res.evaluations}_{i}.json')
                with open(path, 'w') as fd:
                    json.dump(p, fd)
                paths.append(path)
            db = dbm.JsonDatabase(*paths)
            if backend == 'json-pickled':
                db = pickle.loads(pickle.dumps(db))
            elif backend == 'json-pickled-after-load':
                _ = db.data
                db2 = pickle.loads(pickle.dumps(db))
                for path in paths:
                    os.unlink(path)      # must answer from the pickled data
                db = db2
        built = True
    except BaseException as e:
        built = False
        build_err = e
    if not built:
        if merged == REJECT:
            res.count('rejections_at_construction')
            res.seen('rejection_types', type(build_err).__name__)
        else:
            res.violation('legal-description-refused', case, exc_sig(build_err),
                          sig={**sig, 'label': label, 'exc': type(build_err).__name__})
        return
    if merged != REJECT:
        try:
            names = tuple(db.dataset_names)
            res.count('dataset_names_compared')
            if names != tuple(merged[0]) + tuple(merged[1]):
                res.violation('dataset-names-differ', case,
                              {'got': names, 'want': tuple(merged[0]) + tuple(merged[1])},
                              sig=sig)
        except BaseException as e:
            res.violation('dataset-names-raised', case, exc_sig(e), sig=sig)
        for bad in (None, 3, {'a': 1}):
            try:
                db.get_dataset(bad)
                res.violation('illegal-request-accepted', {**case, 'name': repr(bad)},
                              None, sig={**sig, 'why': 'argument-type'})
            except TypeError:
                res.count('argument_type_refusals')
            except BaseException as e:
                res.seen('argument_type_other_refusals', type(e).__name__)
    held = []
    for name in reqs:
        want = model_get(merged, name)
        try:
            ds = db.get_dataset(name)
            got = observe_ds(ds)
        except BaseException as e:
            if want == REJECT:
                res.count('rejections_at_request')
                res.seen('rejection_types', type(e).__name__)
            else:
                res.violation('legal-request-refused', {**case, 'name': name},
                              exc_sig(e), sig={**sig, 'exc': type(e).__name__})
            continue
        if want == REJECT:
            res.violation('illegal-request-accepted', {**case, 'name': name},
                          {'got': got['values'][:4], 'label': label},
                          sig={**sig, 'label': label,
                               'why': ('merge' if merged == REJECT else 'request')})
            continue
        res.count('datasets_compared')
        if got['values'] != want or got['len'] != len(want):
            res.violation('dataset-differs-from-model', {**case, 'name': name},
                          {'got': got, 'want': want}, sig=sig)
            continue
        ids = [w['example_id'] for w in want]
        if isinstance(got['keys'], list) and got['keys'] != ids:
            res.violation('keys-differ', {**case, 'name': name},
                          {'keys': got['keys'], 'want': ids}, sig=sig)
        if isinstance(name, str):
            again = db.get_dataset(name)
            res.count('identity_checks')
            if again is not ds:
                res.violation('repeated-request-not-shared', {**case, 'name': name},
                              None, sig=sig)
        else:
            for member, n in zip(getattr(ds, 'input_datasets', [ds]), name):
                res.count('identity_checks')
                if member is not db.get_dataset(n):
                    res.violation('list-member-not-shared', {**case, 'name': n}, None, sig=sig)
        # mutating what was handed out must not reach the source either
        for ex in got['values']:
            ex['v'] = 'mutated'
            ex.get('nested', {}).get('l', []).append('m')
        if hold:
            held.append(ds)
        del ds
        gc.collect()
    # isolation between database objects
    for name, nds in nheld.items():
        res.count('neighbour_database_datasets_compared')
        if list(nds) != model_get(nmerged, name):
            res.violation('databases-share-datasets', {**case, 'name': name},
                          {'neighbour_now_yields': list(nds)[:4]}, sig=sig)
            break
    # isolation of the sources
    if norm(parts) != norm(pristine):
        res.violation('source-dict-changed', case,
                      {'before': pristine, 'after': parts}, sig=sig)
    res.count('source_comparisons')
    if parts != pristine:
        res.count('alias_section_added_to_source')


def shards(tier, seed):
    out = []
    J = 8
    for backend in ('dict', 'json', 'json-pickled', 'json-pickled-after-load'):
        jj = J if backend == 'dict' else 4
        for j in range(jj):
            out.append({'name': f'{backend}{j}', 'backend': backend, 'mod': jj, 'rem': j,
                        **LIMITS[tier]})
    return out


def run_shard(spec, res):
    ld = import_lazy_dataset()
    rng = rng_for(spec['seed'], PROPERTY, spec['name'])
    tmpdir = tempfile.mkdtemp(prefix='verif_c19_')
    stride = spec['stride'] * (1 if spec['backend'] == 'dict' else 3)
    offset = spec['seed'] % stride
    try:
        for i, (parts, label) in enumerate(descriptions()):
            if label is None and i % stride != offset:
                continue
            if (i // stride) % spec['mod'] != spec['rem'] and label is None:
                continue
            if label is not None and spec['rem'] != 0:
                continue
            for reqs in requests_for(parts, rng, spec['nreq']):
                check(ld, copy.deepcopy(parts), label, spec['backend'], reqs,
                      rng.random() < 0.5, res, tmpdir)
            if len(res.samples) < 2 and len(parts) > 1:
                res.sample({'parts': parts, 'backend': spec['backend'], 'requests': reqs})
    finally:
        shutil.rmtree(tmpdir, ignore_errors=True)


def finalize(res, tier):
    for k in ('datasets_compared', 'identity_checks', 'source_comparisons',
              'neighbour_database_datasets_compared',
              'rejections_at_construction', 'rejections_at_request'):
        if res.counters.get(k, 0) == 0:
            res.inconclusive_because(f'monitor {k} never evaluated')
    return {'descriptions_total': sum(1 for _ in descriptions()),
            'exhaustive': tier == 'thorough'}


def replay(case, res):
    ld = import_lazy_dataset()
    tmpdir = tempfile.mkdtemp(prefix='verif_c19_')
    try:
        check(ld, case['parts'], case.get('label'), case['backend'], case['requests'],
              case['hold'], res, tmpdir)
    finally:
        shutil.rmtree(tmpdir, ignore_errors=True)
