"""C12 - every shuffle is a permutation, for every iterator in flight.

Monitors (all on values = source ids, so a repeat or a loss is visible):
  perm      multiset(output of one iterator) == multiset(input)
  disp      local shuffle: source_pos - out_pos <= buffer_size - 1
  sample    random_choice(replace=False): no repeats, all from the input
  tileblk   tile(r, shuffle=True): each of the r blocks is a permutation
  inter     all interleavings of the next() calls of 2 (n<=4) / 3 (n<=2)
            iterators over ONE dataset object: each iterator is a permutation
  compose   zip / intersperse / concatenate of a dataset with itself
"""
import itertools

import numpy as np

from ..common import import_lazy_dataset, exc_sig, rng_for
from ..vias import COPYING, through

PROPERTY = 'C12'
LEVEL = 'exploration'
RULE = ('cases are (shuffle kind, n, buffer_size, rng kind, seed[, interleaving]); '
        'exhaustive over the stated grid of n/buffer sizes/seeds and over all '
        'interleavings for small n; non-trivial iff n >= 2 (a permutation other '
        'than identity exists); distinct by the full case tuple')
ASSUMPTIONS = ['values are the integers 0..n-1',
               'real numpy generators: RandomState, default_rng, global np.random']
SHARD_TIMEOUT = {'quick': 300, 'thorough': 3000}

LIMITS = {
    'quick': dict(nmax=8, seeds=12, inter2_n=4, inter3_n=2, inter_seeds=6),
    'thorough': dict(nmax=12, seeds=50, inter2_n=5, inter3_n=2, inter_seeds=25),
}
RNG_KINDS = ('RandomState', 'default_rng', 'global')


def make_rng(kind, seed):
    if kind == 'RandomState':
        return np.random.RandomState(seed)
    if kind == 'default_rng':
        return np.random.default_rng(seed)
    np.random.seed(seed)
    return None        # use the library default (global numpy state)


def shuffled(ld, kind, n, b, rngkind, seed, dict_backed=False):
    src = ({f'k{i}': i for i in range(n)} if dict_backed else list(range(n)))
    ds = ld.new(src)
    rng = make_rng(rngkind, seed)
    kw = {} if rng is None else {'rng': rng}
    if (n + seed) % 2 and rng is not None:
        # the positional call form shuffle(reshuffle, rng, buffer_size)
        if kind == 'once':
            return ds.shuffle(False, rng)
        if kind == 'reshuffle':
            return ds.shuffle(True, rng)
        if kind == 'local':
            return ds.shuffle(True, rng, b)
    if kind == 'once':
        return ds.shuffle(reshuffle=False, **kw)
    if kind == 'reshuffle':
        return ds.shuffle(reshuffle=True, **kw)
    if kind == 'local':
        return ds.shuffle(reshuffle=True, buffer_size=b, **kw)
    if kind == 'reshuffle+catch':
        # catch() iterates a frozen copy made at the start of every iteration
        return ds.shuffle(True, **kw).catch()
    if kind == 'reshuffle+freeze':
        return _FreezeOnIter(ds.shuffle(True, **kw))
    if kind == 'reshuffle+map+catch':
        return ds.shuffle(True, **kw).map(_ident).catch()
    raise ValueError(kind)


def _ident(x):
    return x


class _FreezeOnIter:
    """Every iter() is an iteration over a fresh copy(freeze=True)."""

    def __init__(self, ds):
        self.ds = ds

    def __iter__(self):
        return iter(self.ds.copy(freeze=True))

    def __len__(self):
        return len(self.ds)


BELOW = {
    'sorted': lambda d: d.sort(lambda x: -x),
    'reversed': lambda d: d[::-1],
    'shuffled-once': lambda d: d.shuffle(False, rng=np.random.RandomState(3)),
    'frozen-reshuffle': lambda d: d.shuffle(True, rng=np.random.RandomState(4)).copy(freeze=True),
    'shard': lambda d: d.shard(2, 0) if len(d) >= 2 else d,
    'efilter': lambda d: d.filter(lambda x: True, lazy=False),
}
ABOVE = {
    'none': lambda d: d,
    'frozen-copy': lambda d: d.copy(freeze=True),
    'sample': lambda d: d.random_choice(max(1, len(d) - 1), rng_state=np.random.RandomState(5))
    if len(d) else d,
    'sorted-again': lambda d: d.sort(lambda x: x),
}


def is_perm(out, n):
    return sorted(out) == list(range(n))


def check_single(ld, kind, n, b, rngkind, seed, res, path='direct'):
    """`path`: how the shuffled dataset is consumed (vlib/vias.py); the buffer
    size of a local shuffle is a parameter that every copy has to keep."""
    case = {'shuffle': kind, 'n': n, 'b': b, 'rng': rngkind, 'seed': seed}
    if path != 'direct':
        case['path'] = path
        res.count('iterations_through_copies')
    res.case(('single', kind, n, b, rngkind, seed, path), nontrivial=n >= 2)
    try:
        ds = through(ld, shuffled(ld, kind, n, b, rngkind, seed), path)
        epochs = [list(ds) for _ in range(3)]
    except BaseException as e:
        res.violation('shuffle-raised', case, exc_sig(e), sig={'shuffle': kind})
        return
    for ep, out in enumerate(epochs):
        res.count('iterators_checked')
        if not is_perm(out, n):
            res.violation('not-a-permutation', {**case, 'epoch': ep}, {'out': out},
                          sig={'shuffle': kind, 'concurrent': False})
        if kind == 'local':
            for o, s in enumerate(out):
                res.maximum(f'max_displacement_minus_bound', (s - o) - (b - 1))
                if s - o > b - 1:
                    res.violation('local-shuffle-too-early',
                                  {**case, 'epoch': ep},
                                  {'out': out, 'src_pos': s, 'out_pos': o},
                                  sig={'shuffle': kind})
                    break
    if n >= 3:
        res.seen(f'orders:{kind}', tuple(epochs[0]))
    if path != 'direct':
        return
    try:
        if len(ds) != n:
            res.violation('len-differs', case, {'len': len(ds)}, sig={'shuffle': kind})
    except BaseException as e:
        res.violation('len-raised', case, exc_sig(e), sig={'shuffle': kind})
    # items(): every key paired with its own example
    if kind in ('reshuffle', 'local', 'once'):
        try:
            dd = shuffled(ld, kind, n, b, rngkind, seed, dict_backed=True)
            pairs = list(dd.items())
            res.count('items_checked')
            if sorted(pairs) != sorted((f'k{i}', i) for i in range(n)):
                res.violation('items-mispaired', case, {'items': pairs},
                              sig={'shuffle': kind})
        except BaseException as e:
            res.violation('items-raised', case, exc_sig(e), sig={'shuffle': kind})
        # ... also when the shuffle sits on a dataset that is a selection
        # already (sorted, reversed, shuffled once, a frozen reshuffle, a shard)
        # and below a tile / sample of it
        if seed % 4 == 0:
            for below in BELOW:
                for above in ABOVE:
                    try:
                        base = ld.new({f'k{i}': i for i in range(n)})
                        base = BELOW[below](base)
                        want = sorted((k, v) for k, v in zip(base.keys(), base)) \
                            if below != 'shard' else None
                        rng = make_rng(rngkind, seed)
                        kw = {} if rng is None else {'rng': rng}
                        if kind == 'once':
                            dd = base.shuffle(False, **kw)
                        elif kind == 'reshuffle':
                            dd = base.shuffle(True, **kw)
                        else:
                            dd = base.shuffle(True, buffer_size=b, **kw)
                        dd = ABOVE[above](dd)
                        pairs = list(dd.items())
                    except BaseException as e:
                        res.count('stacked_selection_items_not_offered')
                        continue
                    res.count('stacked_selection_items_checked')
                    if any(k != f'k{v}' for k, v in pairs) or \
                            (above == 'none' and want is not None and sorted(pairs) != want):
                        res.violation('items-mispaired',
                                      {**case, 'below': below, 'above': above},
                                      {'items': pairs}, sig={'shuffle': kind, 'stacked': True})
                        return


# ways of saying "without replacement" (the parameter is documented as a bool)
NO_REPLACE = {'False': False, 'default': None, 'np.False_': np.False_, '0': 0,
              'np.bool_(0)': np.bool_(0), 'positional': 'positional'}


def check_sampling(ld, n, size, rngkind, seed, res, how='False'):
    case = {'op': 'random_choice', 'n': n, 'size': size, 'rng': rngkind, 'seed': seed,
            'replace_given_as': how}
    res.case(('sample', n, size, rngkind, seed, how), nontrivial=n >= 2 and size >= 2)
    ds = ld.new(list(range(n)))
    rng = make_rng(rngkind, seed)
    kw = {} if rng is None else {'rng_state': rng}
    try:
        if how == 'default':
            out = list(ds.random_choice(size, **kw))
        elif how == 'positional':
            out = list(ds.random_choice(size, False, *([rng] if rng is not None else [])))
        else:
            out = list(ds.random_choice(size, replace=NO_REPLACE[how], **kw))
    except BaseException as e:
        if size > n:
            res.count('oversampling_refused')
            return
        res.violation('sampling-raised', case, exc_sig(e))
        return
    res.count('iterators_checked')
    if size > n:
        res.violation('oversampling-accepted', case, {'out': out})
        return
    if len(out) != size or len(set(out)) != len(out) or \
            not set(out) <= set(range(n)):
        res.violation('sampling-repeats-or-invents', case, {'out': out})


def check_tile(ld, n, r, seed, res):
    case = {'op': 'tile', 'n': n, 'reps': r, 'seed': seed}
    res.case(('tile', n, r, seed), nontrivial=n >= 2 and r >= 2)
    np.random.seed(seed)
    try:
        ds = ld.new(list(range(n))).tile(r, True) if (n + r) % 2 else \
            ld.new(list(range(n))).tile(reps=r, shuffle=True)
        outs = [list(ds), list(ds)]
    except BaseException as e:
        res.violation('tile-raised', case, exc_sig(e))
        return
    for out in outs:
        res.count('iterators_checked')
        blocks = [out[i * n:(i + 1) * n] for i in range(r)]
        if len(out) != n * r or not all(is_perm(b, n) for b in blocks):
            res.violation('tile-block-not-permutation', case, {'out': out})
    if outs[0] != outs[1]:
        res.violation('tile-shuffle-not-fixed', case, {'outs': outs})


def interleavings(counts):
    """All sequences over range(len(counts)) with counts[i] occurrences of i."""
    total = sum(counts)

    def rec(prefix, left):
        if len(prefix) == total:
            yield tuple(prefix)
            return
        for i, c in enumerate(left):
            if c:
                left[i] -= 1
                prefix.append(i)
                yield from rec(prefix, left)
                prefix.pop()
                left[i] += 1
    yield from rec([], list(counts))


def check_interleaved(ld, kind, n, b, rngkind, seed, order, res):
    case = {'shuffle': kind, 'n': n, 'b': b, 'rng': rngkind, 'seed': seed,
            'interleaving': list(order)}
    k = max(order) + 1
    res.case(('inter', kind, n, b, rngkind, seed, order), nontrivial=n >= 2)
    ds = shuffled(ld, kind, n, b, rngkind, seed)
    its = [None] * k
    outs = [[] for _ in range(k)]
    try:
        for who in order:
            if its[who] is None:
                its[who] = iter(ds)
            try:
                outs[who].append(next(its[who]))
            except StopIteration:
                pass
    except BaseException as e:
        res.violation('interleaved-raised', case, exc_sig(e),
                      sig={'shuffle': kind, 'concurrent': True})
        return
    for j, out in enumerate(outs):
        res.count('iterators_checked')
        res.count('interleaved_iterators_checked')
        if not is_perm(out, n):
            res.violation('not-a-permutation', {**case, 'iterator': j},
                          {'outs': outs},
                          sig={'shuffle': kind, 'concurrent': True})
            return


KEYED_KINDS = ('reshuffle', 'local', 'once', 'reshuffle+catch', 'reshuffle+map+catch',
               'reshuffle+prefetch1catch', 'local+prefetch1', 'reshuffle+filter')


def keyed_dataset(ld, kind, n, b, rngkind, seed):
    if kind == 'reshuffle+prefetch1catch':
        return shuffled(ld, 'reshuffle', n, b, rngkind, seed, dict_backed=True).map(
            _ident).prefetch(1, 2, catch_filter_exception=True)
    if kind == 'local+prefetch1':
        return shuffled(ld, 'local', n, b or 2, rngkind, seed, dict_backed=True).prefetch(1, 2)
    if kind == 'reshuffle+filter':
        return shuffled(ld, 'reshuffle', n, b, rngkind, seed, dict_backed=True).filter(
            lambda x: True)
    return shuffled(ld, kind, n, b, rngkind, seed, dict_backed=True)


def check_interleaved_items(ld, kind, n, b, rngkind, seed, order, res, extra_pass=False,
                            check_perm=True):
    """Keyed iteration (.items()) of shuffled datasets with several iterators
    in flight: every yielded pair must carry the example's own key.  When
    `extra_pass` is set, the underlying dataset is additionally iterated (a new
    epoch starts) in the middle of the interleaving."""
    case = {'shuffle': kind, 'n': n, 'b': b, 'rng': rngkind, 'seed': seed,
            'interleaving': list(order), 'keyed': True, 'extra_pass': extra_pass}
    k = max(order) + 1
    res.case(('inter-items', kind, n, b, rngkind, seed, order, extra_pass), n >= 2)
    try:
        ds = keyed_dataset(ld, kind, n, b, rngkind, seed)
        its = [None] * k
        outs = [[] for _ in range(k)]
        for step, who in enumerate(order):
            if its[who] is None:
                its[who] = iter(ds.items())
            try:
                outs[who].append(next(its[who]))
            except StopIteration:
                pass
            if extra_pass and step == len(order) // 2:
                list(ds)
    except BaseException as e:
        res.violation('interleaved-items-raised', case, exc_sig(e),
                      sig={'shuffle': kind, 'concurrent': True, 'keyed': True})
        return
    # key lookup on the shuffled dataset, asked after the interleaving (the
    # iterators may still be in flight): the example stored under that key,
    # never one the current permutation happens to put at some position
    for j in list(range(n)) + ['absent']:
        key = f'k{j}'
        try:
            got = ds[key]
        except BaseException as e:
            if j != 'absent' and kind in ('reshuffle', 'local', 'once'):
                res.violation('key-lookup-refused', {**case, 'key': key}, exc_sig(e),
                              sig={'shuffle': kind, 'keyed': True})
                return
            res.count('shuffled_key_lookups_refused')
            continue
        res.count('shuffled_key_lookups')
        if j == 'absent' or got != j:
            res.violation('key-lookup-wrong', {**case, 'key': key}, {'got': repr(got)},
                          sig={'shuffle': kind, 'keyed': True})
            return
    for out in outs:
        res.count('keyed_interleaved_iterators_checked')
        if any(not (isinstance(p, tuple) and len(p) == 2 and p[0] == f'k{p[1]}')
               for p in out):
            res.violation('items-mispaired', case, {'outs': outs},
                          sig={'shuffle': kind, 'concurrent': True, 'keyed': True})
            return
        # ('reshuffle' and 'reshuffle+filter' iterate the live reshuffle object:
        # their permutation clause is the known finding, judged un-keyed above)
        if check_perm and kind not in ('reshuffle', 'reshuffle+filter') \
                and not is_perm([v for _, v in out], n):
            res.violation('not-a-permutation', case, {'outs': outs},
                          sig={'shuffle': kind, 'concurrent': True, 'keyed': True})
            return


def check_inflight_prefetch(ld, kind, n, b, rngkind, seed, catch, res):
    """Two iterations of ONE pool-prefetching dataset over a shuffle in flight
    (the first started, the second run to its end, then the first finished):
    each is a permutation."""
    case = {'shuffle': kind, 'n': n, 'b': b, 'rng': rngkind, 'seed': seed,
            'pool_prefetch_iterations_in_flight': 2, 'catch_filter_exception': catch}
    res.case(('inflight', kind, n, b, rngkind, seed, catch), n >= 2)
    try:
        ds = shuffled(ld, kind, n, b, rngkind, seed).prefetch(
            2, 3, 't', catch_filter_exception=catch)
        it1 = iter(ds)
        first = [next(it1)] if n else []
        second = list(ds)
        first += list(it1)
        third = list(ds)
    except BaseException as e:
        res.violation('interleaved-raised', case, exc_sig(e),
                      sig={'shuffle': kind, 'concurrent': True, 'prefetch': True})
        return
    for out in (first, second, third):
        res.count('iterators_checked')
        res.count('pool_prefetch_iterators_in_flight_checked')
        if not is_perm(out, n):
            # (the pool path iterates a frozen copy per iteration: this is not
            # the mechanism of the known finding about the live reshuffle object)
            res.violation('not-a-permutation', case,
                          {'first_started': first, 'second_started': second, 'after': third},
                          sig={'shuffle': kind + ' behind pool prefetch', 'concurrent': True,
                               'prefetch': True})
            return


def check_refused_read(ld, kind, n, rngkind, seed, via, res):
    """An iteration of a shuffled dataset WITHOUT keys is suspended; a keyed
    read of the same object (items(), keys(), new(ds), a key lookup) is
    attempted and refused; the suspended iteration goes on: still a
    permutation.  A refused read is no use of the dataset."""
    case = {'shuffle': kind, 'n': n, 'b': None, 'rng': rngkind, 'seed': seed,
            'refused_read_during_suspended_iteration': via}
    res.case(('refused', kind, n, rngkind, seed, via), n >= 2)
    try:
        ds = shuffled(ld, kind, n, None, rngkind, seed)
        stage = ds.map(_ident) if seed % 2 else ds
        it = iter(stage)
        out = [next(it) for _ in range(min(n, 1 + seed % 3))]
        refused = 0
        for _ in range(2):
            try:
                if via == 'items':
                    next(iter(stage.items()))
                elif via == 'keys':
                    stage.keys()
                elif via == 'lookup':
                    stage['k0']
                elif via == 'items-of-filter':
                    next(iter(stage.filter(lambda x: True).items()))
                refused += 0
            except BaseException:
                refused += 1
        out += list(it)
        after = list(stage)
    except BaseException as e:
        res.violation('interleaved-raised', case, exc_sig(e),
                      sig={'shuffle': kind, 'concurrent': False, 'refused_read': via})
        return
    if not refused:
        return          # the read was served: another situation (two iterations)
    res.count('suspended_iterations_with_a_refused_keyed_read')
    for o in (out, after):
        res.count('iterators_checked')
        if not is_perm(o, n):
            res.violation('not-a-permutation', case, {'suspended': out, 'after': after},
                          sig={'shuffle': kind + ' with a refused keyed read',
                               'concurrent': False})
            return


def check_bare_sources(ld, rngkind, seed, res):
    """Shuffles and samples of sources that are used without the usual
    serialising map on top (the bare ListDataset / DictDataset that
    from_file(..., immutable_warranty=None) and the docstrings use), with
    examples that are themselves sequences ([path, label] pairs), down to a
    single example and a single drawn index."""
    core = ld.core
    for n in (1, 2, 3, 6):
        exs = [[f'p{i}.wav', i] for i in range(n)]
        for backing in ('list', 'tuple', 'dict'):
            def mk():
                e = [list(x) for x in exs]
                if backing == 'dict':
                    return core.DictDataset({f'k{i}': x for i, x in enumerate(e)})
                return core.ListDataset(e if backing == 'list' else tuple(e))
            rng = lambda: make_rng(rngkind, seed) or np.random.RandomState(seed)
            forms = {
                'once': lambda: mk().shuffle(False, rng()),
                'reshuffle-frozen': lambda: mk().shuffle(True, rng()).copy(freeze=True),
                'reshuffle-catch': lambda: mk().shuffle(True, rng()).catch(),
                'reshuffle': lambda: mk().shuffle(True, rng()),
                'tile-shuffle': lambda: mk().tile(2, shuffle=True),
                'choice-1': lambda: mk().random_choice(1, rng_state=rng()),
                'choice-all': lambda: mk().random_choice(n, rng_state=rng(), replace=False),
                'split': lambda: mk().split(n)[0] if n else mk(),
                'index-array-1': lambda: mk()[np.array([n - 1])],
                'index-list-1': lambda: mk()[[0]],
            }
            for fn, form in forms.items():
                case = {'bare_source': backing, 'n': n, 'form': fn, 'rng': rngkind, 'seed': seed}
                res.case(('bare', backing, n, fn, rngkind, seed), True)
                try:
                    ds = form()
                    out = [list(ds), list(ds)]
                    try:
                        ln = len(ds)
                    except TypeError:
                        ln = None          # no length offered (catch)
                except BaseException as e:
                    res.violation('interleaved-raised', case, exc_sig(e),
                                  sig={'shuffle': 'bare source', 'concurrent': False})
                    continue
                res.count('iterators_checked', 2)
                res.count('bare_source_shuffles_checked')
                want_n = {'tile-shuffle': 2 * n, 'choice-1': 1, 'split': 1,
                          'index-array-1': 1, 'index-list-1': 1}.get(fn, n)
                ok = True
                for o in out:
                    if len(o) != want_n or ln not in (None, want_n) or \
                            any(not isinstance(x, list) or x not in exs for x in o):
                        ok = False
                    elif fn in ('once', 'reshuffle-frozen', 'reshuffle-catch', 'reshuffle',
                                'choice-all') and sorted(x[1] for x in o) != list(range(n)):
                        ok = False
                    elif fn == 'tile-shuffle' and \
                            sorted(x[1] for x in o) != sorted(list(range(n)) * 2):
                        ok = False
                if not ok:
                    res.violation('not-a-permutation', case, {'passes': out, 'len': ln,
                                                              'examples': exs},
                                  sig={'shuffle': 'bare source of sequences', 'concurrent': False})


def check_compose(ld, how, kind, n, b, rngkind, seed, res):
    case = {'compose': how, 'shuffle': kind, 'n': n, 'b': b, 'rng': rngkind,
            'seed': seed}
    res.case(('compose', how, kind, n, b, rngkind, seed), nontrivial=n >= 2)
    ds = shuffled(ld, kind, n, b, rngkind, seed)
    try:
        if how == 'zip':
            out = list(ds.zip(ds))
            streams = [[a for a, _ in out], [c for _, c in out]]
        elif how == 'concatenate':
            out = list(ds.concatenate(ds))
            streams = [out[:n], out[n:]]
        elif how == 'intersperse':
            comp = ds.intersperse(ds)
            out = list(comp)
            streams = [[], []]
            for (_, di, _), v in zip(comp.order, out):
                streams[di].append(v)
        elif how == 'zip-items':
            dd = shuffled(ld, kind, n, b, rngkind, seed, dict_backed=True)
            out = list(dd.items().zip(dd.items()))
            streams = [[a for a, _ in out], [c for _, c in out]]
            for s in streams:
                if any(kk != f'k{v}' for kk, v in s):
                    res.violation('items-mispaired', case, {'out': out},
                                  sig={'shuffle': kind, 'concurrent': True})
                    return
            streams = [[v for _, v in s] for s in streams]
        else:
            raise ValueError(how)
    except BaseException as e:
        res.violation('compose-raised', case, exc_sig(e),
                      sig={'shuffle': kind, 'concurrent': True, 'compose': how})
        return
    for s in streams:
        res.count('iterators_checked')
        res.count('composed_streams_checked')
        if not is_perm(s, n):
            res.violation('not-a-permutation', case, {'out': out},
                          sig={'shuffle': kind, 'concurrent': True})
            return


def shards(tier, seed):
    lim = LIMITS[tier]
    out = []
    for kind in ('once', 'reshuffle', 'local'):
        for rk in RNG_KINDS:
            out.append({'name': f'single-{kind}-{rk}', 'what': 'single',
                        'kind': kind, 'rng': rk, **lim})
    out.append({'name': 'sampling-tile', 'what': 'sampling', **lim})
    for kind in ('reshuffle', 'local', 'once', 'reshuffle+catch', 'reshuffle+freeze',
                 'reshuffle+map+catch'):
        for rk in RNG_KINDS:
            out.append({'name': f'inter-{kind}-{rk}', 'what': 'inter',
                        'kind': kind, 'rng': rk, **lim})
    for rk in RNG_KINDS:
        out.append({'name': f'compose-{rk}', 'what': 'compose', 'rng': rk, **lim})
    out.append({'name': 'slow-consumer', 'what': 'slow', **lim})
    return out


def run_shard(spec, res):
    ld = import_lazy_dataset()
    base = spec['seed'] * 1000
    if spec['what'] == 'single':
        kind = spec['kind']
        for n in range(0, spec['nmax'] + 1):
            bs = range(1, n + 2) if kind == 'local' else (None,)
            for b in bs:
                for s in range(spec['seeds']):
                    check_single(ld, kind, n, b, spec['rng'], base + s, res)
                    if s < 2 and kind in ('local', 'reshuffle', 'once'):
                        for path in COPYING:
                            check_single(ld, kind, n, b, spec['rng'], base + s, res, path)
        # sizes around 2^8 and 2^16 (index arrays of another width)
        for n in (127, 128, 129, 255, 256, 257, 1000) + \
                ((32769, 65537) if spec['rng'] == 'RandomState' else ()):
            for b in ((3, 100, n + 1) if kind == 'local' else (None,)):
                check_single(ld, kind, n, b, spec['rng'], base + n, res)
                res.count('large_shuffles_checked')
        res.sample({'shuffle': kind, 'rng': spec['rng'], 'n': 6, 'b': 3,
                    'epochs': [list(shuffled(ld, kind, 6, 3, spec['rng'], base))
                               for _ in range(1)]})
    elif spec['what'] == 'sampling':
        for rk in RNG_KINDS:
            for n in range(0, spec['nmax'] + 1):
                for size in range(0, n + 2):
                    for s in range(max(3, spec['seeds'] // 4)):
                        check_sampling(ld, n, size, rk, base + s, res)
                    for how in NO_REPLACE:
                        check_sampling(ld, n, size, rk, base + 77, res, how)
        for n in range(0, spec['nmax'] + 1):
            for r in (1, 2, 3):
                for s in range(spec['seeds']):
                    check_tile(ld, n, r, base + s, res)
    elif spec['what'] == 'inter':
        kind = spec['kind']
        for n in range(0, spec['inter2_n'] + 1):
            bs = sorted({1, 2, n + 1}) if kind == 'local' else (None,)
            for order in interleavings([n + 1, n + 1]):
                for b in bs:
                    for s in range(spec['inter_seeds']):
                        check_interleaved(ld, kind, n, b, spec['rng'], base + s,
                                          order, res)
        for n in range(0, spec['inter3_n'] + 1):
            bs = (2,) if kind == 'local' else (None,)
            for order in interleavings([n + 1] * 3):
                for b in bs:
                    for s in range(max(2, spec['inter_seeds'] // 3)):
                        check_interleaved(ld, kind, n, b, spec['rng'], base + s,
                                          order, res)
        if kind == 'reshuffle':          # one shard per rng kind does the keyed runs
            for kk in KEYED_KINDS:
                for n in range(0, min(spec['inter2_n'], 4) + 1):
                    for order in interleavings([n + 1, n + 1]):
                        for s_ in range(max(2, spec['inter_seeds'] // 3)):
                            for extra in (False, True):
                                check_interleaved_items(ld, kk, n, 2, spec['rng'],
                                                        base + s_, order, res, extra)
        res.sample({'shuffle': kind, 'rng': spec['rng'], 'n': 3,
                    'interleaving': [0, 0, 1, 0, 1, 1, 0, 1],
                    'note': 'iterator index of each successive next() call'})
        if kind == 'reshuffle':
            for s_ in range(3):
                check_bare_sources(ld, spec['rng'], base + s_, res)
            for n in (2, 5, 9):
                for s_ in range(4):
                    for via in ('items', 'keys', 'lookup', 'items-of-filter'):
                        for kk in ('reshuffle', 'once'):
                            check_refused_read(ld, kk, n, spec['rng'], base + s_, via, res)
            for n in (0, 1, 2, 5, 9):
                for s_ in range(3):
                    for catch in (None, True, Exception):
                        for kk in ('reshuffle', 'once'):
                            check_inflight_prefetch(ld, kk, n, None, spec['rng'], base + s_,
                                                    catch, res)
    elif spec['what'] == 'slow':
        # shuffled data behind a background hand-over, with a consumer that
        # stalls for more than a second (a training step): still a permutation
        import time
        for kind, b_ in (('reshuffle', None), ('local', 3), ('once', None)):
            for pf in ((1, 2), (2, 2)):
                if kind == 'local' and pf[0] > 1:
                    continue
                n = 12
                ds = shuffled(ld, kind, n, b_, 'RandomState', base + 5).prefetch(*pf)
                out = []
                for j, x in enumerate(ds):
                    out.append(x)
                    if j == 1:
                        time.sleep(1.3)
                case = {'shuffle': kind, 'n': n, 'b': b_, 'prefetch': list(pf),
                        'consumer_stalls_after': 1, 'stall_seconds': 1.3}
                res.case(('slow', kind, pf), True)
                res.count('iterators_checked')
                res.count('slow_consumer_iterators_checked')
                if not is_perm(out, n):
                    res.violation('not-a-permutation', case, {'out': out},
                                  sig={'shuffle': kind + '+prefetch', 'concurrent': False,
                                       'consumer': 'slow'})
    elif spec['what'] == 'compose':
        for how in ('zip', 'intersperse', 'concatenate', 'zip-items'):
            for kind in ('reshuffle', 'local', 'once'):
                for n in range(1, spec['nmax'] + 1):
                    bs = sorted({1, 3, n + 1}) if kind == 'local' else (None,)
                    for b in bs:
                        for s in range(spec['seeds']):
                            check_compose(ld, how, kind, n, b, spec['rng'],
                                          base + s, res)


def finalize(res, tier):
    if res.counters.get('interleaved_iterators_checked', 0) == 0:
        res.inconclusive_because('no interleaved iterator was checked')
    for kind in ('once', 'reshuffle', 'local'):
        if len(res.sets.get(f'orders:{kind}', ())) < 5:
            res.inconclusive_because(
                f'fewer than 5 distinct orders seen for {kind}: the workload '
                f'did not shuffle')
    return {'interleavings_exhaustive_for': {'two_iterators_n<=': LIMITS[tier]['inter2_n'],
                                             'three_iterators_n<=': LIMITS[tier]['inter3_n']}}


def replay(case, res):
    ld = import_lazy_dataset()
    if case.get('keyed'):
        check_interleaved_items(ld, case['shuffle'], case['n'], case['b'], case['rng'],
                                case['seed'], tuple(case['interleaving']), res,
                                case.get('extra_pass', False))
    elif 'interleaving' in case:
        check_interleaved(ld, case['shuffle'], case['n'], case['b'], case['rng'],
                          case['seed'], tuple(case['interleaving']), res)
    elif 'bare_source' in case:
        check_bare_sources(ld, case['rng'], case['seed'], res)
    elif 'refused_read_during_suspended_iteration' in case:
        check_refused_read(ld, case['shuffle'], case['n'], case['rng'], case['seed'],
                           case['refused_read_during_suspended_iteration'], res)
    elif 'compose' in case:
        check_compose(ld, case['compose'], case['shuffle'], case['n'], case['b'],
                      case['rng'], case['seed'], res)
    elif case.get('op') == 'random_choice':
        check_sampling(ld, case['n'], case['size'], case['rng'], case['seed'], res,
                       case.get('replace_given_as', 'False'))
    elif case.get('op') == 'tile':
        check_tile(ld, case['n'], case['reps'], case['seed'], res)
    else:
        check_single(ld, case['shuffle'], case['n'], case['b'], case['rng'],
                     case['seed'], res, case.get('path', 'direct'))
