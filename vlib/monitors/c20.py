"""C20 - the profiling wrapper is transparent and counts truthfully.

  transparency  observation(ProfilingDataset(P)) == observation(P): examples,
                order, length, indexing incl. errors, and the position and type
                of an error raised inside the pipeline; also with both placed
                behind prefetch(2, 4, 't')
  untouched     structural snapshot of P (identity of every input reference,
                values of every other attribute) before wrapping == after
                wrapping and iterating the wrapper
  counts        the documented report (repr: "hits = N (M filtered)" per stage)
                is compared with the fetch counts of the lazy reference
                evaluator for the same program: N - M (successful fetches) must
                be equal for every stage; M must equal the evaluator's failed
                fetches (>= when an index-probing batch stage is involved)
"""
import re
import itertools

import numpy as np

from .. import programs, lazyref, observe as ob
from ..common import import_lazy_dataset, rng_for, exc_sig
from ..observe import is_err, err
from ..programs import Fns, op_name
from ..refmodel import Unsupported, Skip
from ..terms import Fn, Pred, SortKey, sid
from .c01 import fix_prog

PROPERTY = 'C20'
LEVEL = 'exploration'
RULE = ('pipeline programs of depth <= 2 (quick) / plus a 1/29 sample of depth 3 (thorough, 3 sources) plus '
        'random programs of depth <= 5 with injected failing map stages; each '
        'wrapped pipeline is observed next to the plain one (full, partial and '
        'indexed access, behind thread prefetch) and its per-stage report is '
        'compared with the reference fetch counts; non-trivial iff >= 1 example '
        'was delivered and >= 1 stage count compared; distinct by the program')
ASSUMPTIONS = ['hit counts are read from the documented report repr(wrapper)',
               'count oracle only for pipelines without shared sub-pipelines '
               '(ds.zip(ds) etc. are wrapped as two copies)']
SHARD_TIMEOUT = {'quick': 300, 'thorough': 7000}
LIMITS = {'quick': dict(depths=(0, 1, 2), nrand=2500),
          'thorough': dict(depths=(0, 1, 2, 3), nrand=40000)}
SOURCES = [('dict', 3, 'pickle'), ('list', 4, 'pickle'), ('dict', 0, 'pickle'),
           ('list', 2, 'wu'), ('dict', 5, 'copy')]
SOURCES3 = [('dict', 3, 'pickle'), ('list', 4, 'pickle'), ('list', 2, 'wu')]
EXCLUDED = {'cycle', 'tile_shuffle', 'apply_lazy', 'catchfilter', 'mapguard', 'single', 'concat_aba', 'intersperse_aba', 'catchprefetch'}
FAULT_OPS = [('mapfail', (1,), 'filter'), ('mapfail', (0, 2), 'filter'),
             ('mapfail', (2,), 'value'), ('mapfail', (0,), 'value'),
             ('mapfail', (1, 3), 'filter')]


class MyValueError(ValueError):
    pass


class FaultFns(Fns):
    def __init__(self, filter_exc):
        self.catch_exc = filter_exc

    def raiser(self, ids, kind, stage):
        exc = self.catch_exc if kind == 'filter' else MyValueError
        ids = set(ids)

        def r(x):
            if sid(x) in ids:
                raise exc(sid(x))
            return ('r', x)
        return r


RANDOM_OPS = [('reshuffle', 3), ('reshuffle', 11), ('localshuffle', 2, 4)]


def alphabet(n, kind):
    return [op for op in programs.alphabet(n, kind) if op[0] not in EXCLUDED] \
        + FAULT_OPS + RANDOM_OPS


def consume(ds, limit, k=None):
    out = []
    try:
        it = iter(ds)
        for x in itertools.islice(it, limit if k is None else k):
            out.append(x)
        if k is not None:
            close = getattr(it, 'close', None)
            if close:
                close()
    except ob.Watchdog:
        raise
    except BaseException as e:
        return out, type(e).__name__
    return out, None


def observe(ds, n, indexable):
    o = {'iter1': consume(ds, n + 3), 'iter2': consume(ds, n + 3),
         'partial': consume(ds, n + 3, k=2),
         'len': ob.guarded(lambda: len(ds)), 'keys': ob.guarded(lambda: tuple(ds.keys()))}
    if indexable:
        o['get'] = {i: ob.guarded(lambda: ds[i]) for i in range(-n - 1, n + 1)}
        o['get_np'] = {i: ob.guarded(lambda: ds[np.int64(i)]) for i in (0, n - 1)}
    return o


def snapshot(ld, ds, seen=None):
    """Identity of referenced datasets and value/identity of everything else."""
    seen = {} if seen is None else seen
    if id(ds) in seen:
        return ('ref', seen[id(ds)])
    seen[id(ds)] = len(seen)
    out = [type(ds).__name__, id(ds)]
    for k, v in sorted(vars(ds).items()):
        if isinstance(v, ld.Dataset):
            out.append((k, snapshot(ld, v, seen)))
        elif isinstance(v, (list, tuple)) and any(isinstance(x, ld.Dataset) for x in v):
            out.append((k, type(v).__name__, id(v),
                        tuple(snapshot(ld, x, seen) for x in v)))
        elif isinstance(v, (int, float, str, bool, type(None))):
            out.append((k, v))
        elif isinstance(v, np.ndarray):
            out.append((k, id(v), v.tobytes()))
        else:
            out.append((k, id(v)))
    return tuple(out)


HITS = re.compile(r'hits = (\d+)(?: \((\d+) filtered\))?\)$')


def report(w):
    out = []
    for line in repr(w).splitlines():
        mm = HITS.search(line)
        if mm:
            out.append((int(mm.group(1)), int(mm.group(2) or 0), line.strip()[:50]))
    return out


def count_oracle_applies(prog):
    for op in prog['ops']:
        if op[0] in ('concat', 'intersperse', 'zip', 'key_zip'):
            if not isinstance(op[1], dict):
                return False
            if not count_oracle_applies(op[1]):
                return False
        if op[0] == 'tile' and op[1] > 1:
            return False
        if op[0] in ('reshuffle', 'localshuffle', 'intersperse3', 'zip3', 'key_zip3'):
            return False
    return True


def buffered(prog):
    return any(op[0] in ('prefetch1', 'prefetcht', 'parmap') for op in prog['ops'])


def expected_trace(prog, fe, access):
    B = lazyref.Build(FaultFns(fe), count=True)
    node = B.run(prog)
    for _, _, c in B.trace:
        c[0] = c[1] = 0        # fetches made while *building* are not profiled
    try:
        access(node)
    except Exception:
        pass
    out = []
    for label, lines, c in B.trace:
        out += [(label, c[0], c[1])] * lines
    return out


def shared_random(prog):
    """A random stage that is referenced twice further up (ds.zip(ds), tile):
    the wrapper profiles two *copies*, which changes how the two references
    share the in-place permutation state (the mechanism of the known finding
    C12-reshuffle-shared-permutation); equal seeds then give another order."""
    seen_random = False
    for op in prog['ops']:
        if op[0] in ('reshuffle', 'localshuffle'):
            seen_random = True
        elif seen_random and ((op[0] in ('concat', 'intersperse', 'zip', 'key_zip')
                               and not isinstance(op[1], dict))
                              or op[0] in ('zip3', 'key_zip3')
                              or (op[0] == 'tile' and op[1] > 1)):
            return True
    return False


def check(ld, prog, res):
    status, m = programs.classify(prog)
    if status != 'ok' or not m.finite:
        return
    if shared_random(prog):
        res.count('skipped_shared_random_stage')
        return
    case = {'prog': prog}
    lo = op_name(prog['ops'][-1]) if prog['ops'] else 'source'
    fe = ld.core.FilterException
    fns = FaultFns(fe)
    sig0 = {'last_op': lo, 'items_in_prog': any(op[0] == 'items' for op in prog['ops'])}
    try:
        with ob.watchdog(20):
            try:
                P = programs.build(ld, prog, fns=fns)
            except BaseException:
                res.count('build_refused')
                return
            before = snapshot(ld, P)
            try:
                W = ld.core.ProfilingDataset(P)
            except BaseException as e:
                res.count('wrap_refused')
                res.seen('wrap_refused', f'{lo}:{type(e).__name__}')
                return
            n = m.n
            idx = m.indexable and m.sized
            oW = observe(W, n, idx)
            after = snapshot(ld, P)
            res.count('snapshots_compared')
            if before != after:
                res.violation('wrapped-pipeline-changed', case, None, sig=sig0)
                res.case(repr(prog), True)
                return
            oP = observe(programs.build(ld, prog, fns=fns), n, idx)
            nontrivial = len(oP['iter1'][0]) >= 1
            res.count('transparency_comparisons')
            if buffered(prog) and any(op[0] in ('reshuffle', 'localshuffle')
                                      for op in prog['ops']):
                # a background thread reads ahead through the random stage: how
                # many draws it has consumed when an iteration stops early (or
                # fails) depends on timing, so only the first pass is comparable
                oP = {k: oP[k] for k in ('iter1', 'len', 'keys')}
            for k in oP:
                if oP[k] != oW.get(k):
                    a, b = oP[k], oW.get(k)
                    if isinstance(a, dict):
                        bad = next(i for i in a if a[i] != b[i])
                        a, b, k = a[bad], b[bad], f'{k}[{bad}]'
                    res.violation('profiling-changes-observation', {**case, 'aspect': k},
                                  {'plain': a, 'wrapped': b},
                                  sig={**sig0, 'aspect': k.split('[')[0],
                                       'wrapped_error': b[1] if (isinstance(b, tuple)
                                                                  and len(b) == 2 and isinstance(b[1], str)) else None})
                    res.case(repr(prog), nontrivial)
                    return
            # ---- behind thread prefetch
            if idx and m.copyable:
                try:
                    a = consume(programs.build(ld, prog, fns=fns).prefetch(2, 4, 't'), n + 3)
                    W2 = ld.core.ProfilingDataset(programs.build(ld, prog, fns=fns))
                    b = consume(W2.prefetch(2, 4, 't'), n + 3)
                    res.count('prefetch_transparency_comparisons')
                    if a != b:
                        res.violation('profiling-changes-observation',
                                      {**case, 'aspect': 'behind-prefetch'},
                                      {'plain': a, 'wrapped': b},
                                      sig={**sig0, 'aspect': 'behind-prefetch'})
                        res.case(repr(prog), nontrivial)
                        return
                except ob.Watchdog:
                    raise
                except BaseException as e:
                    res.count('prefetch_wrap_refused')
            # ---- counts
            compared = 0
            has_fault = any(op[0] == 'mapfail' for op in prog['ops'])
            if count_oracle_applies(prog) and not (has_fault and buffered(prog)):
                accesses = [('full', lambda d: consume(d, n + 3),
                             lambda node: [x for x in node.it()])]
                if not buffered(prog):
                    accesses.append(('partial2', lambda d: consume(d, n + 3, k=2),
                                     lambda node: list(itertools.islice(node.it(), 2))))
                if idx and n:
                    accesses.append(('last-index', lambda d: ob.guarded(lambda: d[n - 1]),
                                     lambda node: node.get(n - 1)))
                    accesses.append(('first-index-twice',
                                     lambda d: (ob.guarded(lambda: d[0]), ob.guarded(lambda: d[0])),
                                     lambda node: (ob.guarded(lambda: node.get(0)),
                                                   ob.guarded(lambda: node.get(0)))))
                has_batch = any(op[0] == 'batch' for op in prog['ops'])
                for name, lib_access, ref_access in accesses:
                    Wc = ld.core.ProfilingDataset(programs.build(ld, prog, fns=fns))
                    lib_access(Wc)
                    got = report(Wc)
                    want = expected_trace(prog, fe, ref_access)
                    if len(got) != len(want):
                        # one report line per stage of the pipeline is what
                        # the wrapper documents; a stage without a line has
                        # no count at all
                        res.violation('report-misses-stages', {**case, 'access': name},
                                      {'report_lines': len(got), 'stages': len(want),
                                       'report': got},
                                      sig={'access': name,
                                           'fewer': len(got) < len(want)})
                        res.case(repr(prog), True)
                        return
                    for (N, M, line), (label, ok, failed) in zip(got, want):
                        res.count('stage_counts_compared')
                        res.seen('stage_kinds_compared', label)
                        compared += 1
                        good = (N - M == ok) and (M == failed or (has_batch and M >= failed))
                        if not good:
                            res.violation('hit-count-wrong', {**case, 'access': name},
                                          {'stage': label, 'line': line,
                                           'reported_hits': N, 'reported_failed': M,
                                           'reference_successful': ok,
                                           'reference_failed': failed,
                                           'full_report': got},
                                          sig={'stage': label, 'access': name,
                                               'which': 'failed' if N - M == ok else 'hits'})
                            res.case(repr(prog), True)
                            return
            res.case(repr(prog), nontrivial and compared > 0)
            if compared and nontrivial and len(res.samples) < 2 and len(prog['ops']) >= 2:
                res.sample({'program': prog, 'report_after_full_iteration': report(Wc)})
    except ob.Watchdog:
        res.inconclusive_because(f'watchdog on {prog!r}')


def exhaustive(depth, sources):
    for src in sources:
        alpha = alphabet(src[1], src[0])
        for ops in itertools.product(alpha, repeat=depth):
            yield {'src': src, 'ops': list(ops)}


def run_sched(spec, res):
    """The counters that the copies used by thread-prefetch workers share,
    under the controlled scheduler (all of core.py traced, so another worker may
    run between any two lines of the wrapper): after a full iteration the report
    must equal what the instrumented function saw, failed fetches included."""
    import random
    from .. import conc, detsched as D, concshards as cs
    e = conc.env()
    ld, core, pu = e['ld'], e['core'], e['pu']
    traced = {pu.__file__: None, core.__file__: None}
    rng = rng_for(spec['seed'], PROPERTY, spec['name'])
    fe = ld.core.FilterException

    def one(n, b, w, failing, chooser, label):
        out = {}
        case = {'n': n, 'b': b, 'w': w, 'failing': sorted(failing), 'schedule': label,
                'profiled_pool_prefetch': True}

        def body(S):
            seen = {'calls': 0, 'failed': 0}

            def fn(x):
                S.preempt()
                seen['calls'] += 1
                S.preempt()
                if x in failing:
                    seen['failed'] += 1
                    S.preempt()
                    raise fe(x)
                return ('f', x)
            P = ld.new(list(range(n))).map(fn).prefetch(w, b, 't',
                                                        catch_filter_exception=True)
            W = ld.core.ProfilingDataset(P)
            out['got'] = list(W)
            out['report'] = report(W)
            out['seen'] = dict(seen)
        try:
            D.run(chooser, traced, body, step_limit=400000)
        except D.Deadlock as dl:
            res.violation('profiling-changes-observation', {**case, 'aspect': 'deadlock'},
                          {'blocked': dl.args[0]}, sig={'aspect': 'deadlock'})
            return
        S = D.S
        res.count('scheduled_executions')
        res.count('scheduled_choice_points', S.nchoices)
        res.case(('sched', n, b, w, tuple(sorted(failing)), tuple(c[1] for c in S.choices[:300])),
                 S.max_enabled >= 2)
        want = [('f', i) for i in range(n) if i not in failing]
        if out['got'] != want:
            res.violation('profiling-changes-observation', {**case, 'aspect': 'iter1'},
                          {'wrapped': out['got'], 'plain': want},
                          sig={'aspect': 'iter1', 'harness': 'scheduler'})
            return
        rep = out['report']
        # lines: source list, (deserialising map), user map, prefetch
        user_map = rep[-2]
        src = rep[0]
        top = rep[-1]
        exp = (n, len(failing))
        res.count('stage_counts_compared', 3)
        if (user_map[0], user_map[1]) != exp or src[0] != n or \
                (top[0], top[1]) != (n - len(failing), 0):
            res.violation('hit-count-wrong', {**case, 'access': 'full'},
                          {'report': rep, 'function_saw': out['seen'],
                           'expected_user_map (hits, failed)': exp},
                          sig={'stage': 'map', 'access': 'thread-prefetch',
                               'harness': 'scheduler'})
    for n, b, w, failing in ((3, 2, 2, {0, 1}), (4, 3, 2, {1, 2}), (4, 3, 3, {0, 1, 3}),
                             (3, 2, 2, set()), (5, 2, 2, {0, 2, 4})):
        for i in range(spec['sched_runs']):
            seed = rng.randrange(1 << 30)
            name = cs.CHOOSERS[i % len(cs.CHOOSERS)]
            one(n, b, w, failing, cs.chooser_for(name, random.Random(seed)), (name, seed))
    dfs = D.DFS(2, max_runs=spec['sched_dfs_cap'])

    def once(ch):
        one(3, 2, 2, {0, 1}, ch, 'dfs')
    for _ in dfs.explore(once):
        pass


def run_epochs(spec, res):
    """Several epochs over ONE profiling wrapper whose pipeline reorders per
    epoch (equally seeded reshuffle in the plain twin): examples, order and
    (key, example) pairing of every epoch equal the twin's - whatever the
    wrapper memoises must not outlive an epoch."""
    import numpy as np
    ld = import_lazy_dataset()

    def f(x):
        return ('f', x)
    heads = {'plain': lambda d: d, 'map': lambda d: d.map(f)}
    rnd = {'reshuffle': lambda d, r: d.shuffle(True, rng=r),
           'local3': lambda d, r: d.shuffle(True, rng=r, buffer_size=3)}
    tails = {
        'none': lambda d: d, 'map': lambda d: d.map(f),
        'items': lambda d: d.items(),
        'items-prefetcht': lambda d: d.items().prefetch(2, 4, 't'),
        'prefetcht-items': lambda d: d.prefetch(2, 4, 't').items(),
        'catch-items': lambda d: d.catch().items(),
        'map-catch': lambda d: d.map(f).catch(),
        'prefetch1': lambda d: d.prefetch(1, 3),
        'batch2': lambda d: d.batch(2),
        'prefetcht-catch': lambda d: d.prefetch(2, 2, 't', catch_filter_exception=True),
        'key_zip-self-map': lambda d: d.key_zip(d.map(f)),
    }
    for n in (0, 1, 5, 12):
        for hn, head in heads.items():
            for rn, rd in rnd.items():
                for tn, tail in tails.items():
                    if rn == 'local3' and 'prefetcht' in tn or tn.startswith('key_zip') \
                            and rn != 'reshuffle':
                        continue
                    for seed in range(spec['nseeds']):
                        case = {'n': n, 'head': hn, 'random_stage': rn, 'tail': tn,
                                'seed': seed}
                        src = {f'k{i}': i for i in range(n)}

                        def build():
                            return tail(rd(head(ld.new(src)), np.random.RandomState(seed)))
                        try:
                            twin = build()
                            want = [list(twin) for _ in range(3)]
                        except BaseException:
                            res.count('epoch_pipelines_not_offered')
                            continue
                        # key_zip of a reshuffle with itself: known finding
                        # C12-reshuffle-shared-permutation makes the twin no reference
                        try:
                            prof = ld.core.ProfilingDataset(build())
                            got = [list(prof) for _ in range(3)]
                        except BaseException as e:
                            res.violation('profiling-changes-observation', case,
                                          exc_sig(e), sig={'aspect': 'epochs', 'tail': tn})
                            continue
                        res.case(('epochs', n, hn, rn, tn, seed), n >= 2)
                        res.count('multi_epoch_transparency_comparisons')
                        # the report: the stage of the mapped function f counts as
                        # many fetches as f was called (also when the stages below
                        # are reached through the frozen copy of a shuffle)
                        if hn == 'map' and tn in ('none', 'items', 'prefetch1', 'batch2',
                                                  'items-prefetcht', 'prefetcht-items',
                                                  'catch-items', 'prefetcht-catch'):
                            calls = []

                            def fc(x, calls=calls):
                                calls.append(x)
                                return ('f', x)
                            try:
                                pc = ld.core.ProfilingDataset(tail(rd(
                                    ld.new(src).map(fc), np.random.RandomState(seed))))
                                list(pc)
                                list(pc)
                                rep = repr(pc)
                            except BaseException as e:
                                res.violation('profiling-changes-observation', case,
                                              exc_sig(e), sig={'aspect': 'epochs-count'})
                                continue
                            m_ = re.search(r'MapDataset\(<function \S*\.fc at 0x[0-9a-f]+>\)[^\n]*?hits = (\d+)',
                                           rep)
                            res.count('hit_counts_compared_behind_shuffles')
                            if m_ is None or int(m_.group(1)) != len(calls):
                                res.violation('hit-count-wrong', case,
                                              {'function_calls': len(calls),
                                               'reported': m_.group(1) if m_ else None,
                                               'report': rep[-600:]},
                                              sig={'aspect': 'epochs-count', 'tail': tn})
                        if got != want:
                            res.violation('profiling-changes-observation', case,
                                          {'profiled_epochs': got, 'plain_epochs': want},
                                          sig={'aspect': 'epochs', 'tail': tn})


def run_live_report(spec, res):
    """The report is truthful at every moment, not only after a pass has
    ended: while iterators of the wrapper are alive (suspended after k
    examples, two of them interleaved, one closed), the count of the stage of
    f is the number of times f has been called so far."""
    ld = import_lazy_dataset()
    pat = re.compile(r'MapDataset\(<function \S*\.fc at 0x[0-9a-f]+>\)[^\n]*?hits = (\d+)')
    tails = {'map': lambda d: d, 'map.map': lambda d: d.map(lambda x: x),
             'map.batch2': lambda d: d.batch(2), 'map.filter': lambda d: d.filter(lambda x: True),
             'map.prefetch1': lambda d: d.prefetch(1, 1)}
    for n in (1, 4, 7):
        for tn, tail in tails.items():
            calls = []

            def fc(x, calls=calls):
                calls.append(x)
                return x
            case = {'live_report': True, 'n': n, 'stages': tn}
            res.case(('live', n, tn), True)
            try:
                p = ld.core.ProfilingDataset(tail(ld.new(list(range(n))).map(fc)))
                readings = []

                def read():
                    m_ = pat.search(repr(p))
                    readings.append((int(m_.group(1)) if m_ else None, len(calls)))
                it1 = iter(p)
                next(it1, None)
                read()
                it2 = iter(p)
                next(it2, None)
                next(it1, None)
                read()
                it1.close() if hasattr(it1, 'close') else None
                read()
                list(it2)
                read()
            except BaseException as e:
                res.violation('profiling-changes-observation', case, exc_sig(e),
                              sig={'aspect': 'live-report'})
                continue
            res.count('live_report_readings', len(readings))
            # behind a buffering stage the function may have been called for
            # examples that are still in flight; the count may then lag by them
            slack = 3 if 'prefetch' in tn else 0
            if any(r is None or not (c - slack <= r <= c) for r, c in readings):
                res.violation('hit-count-wrong', case,
                              {'(reported, calls so far) at four moments': readings},
                              sig={'aspect': 'live-report', 'tail': tn})


def run_catching_prefetch(spec, res):
    """A prefetch that filters exceptions (catch_filter_exception, one worker
    or several) inside a profiled pipeline: every fetch below it is counted,
    the failed ones included, epoch after epoch."""
    ld = import_lazy_dataset()
    FE = ld.core.FilterException
    pat = re.compile(r'MapDataset\(<function \S*\.fc at 0x[0-9a-f]+>\)[^\n]*?hits = (\d+)')
    for n in (3, 8):
        for w, b in ((1, 2), (1, 1), (2, 3)):
            for sel_name, sel in (('true', True), ('type', FE), ('list', [FE, KeyError]),
                                  ('tuple', (FE, MyValueError))):
                for wrap in ('wrapper', 'copy-of-wrapper'):
                    calls = []

                    def fc(x, calls=calls):
                        calls.append(x)
                        return x

                    def bad(x):
                        if x % 3 == 1:
                            raise FE(x)
                        return x
                    case = {'catching_prefetch': True, 'n': n, 'workers': w, 'buffer': b,
                            'selection': sel_name, 'iterated': wrap}
                    res.case(('catchpf', n, w, b, sel_name, wrap), True)
                    try:
                        ds = ld.new(list(range(n))).map(fc).map(bad).prefetch(
                            w, b, 't', catch_filter_exception=sel)
                        p = ld.core.ProfilingDataset(ds)
                        q = p.copy() if wrap == 'copy-of-wrapper' else p
                        readings = []
                        outs = []
                        for _ in range(2):
                            outs.append(list(q))
                            m_ = pat.search(repr(q))
                            readings.append((int(m_.group(1)) if m_ else None, len(calls)))
                    except BaseException as e:
                        res.violation('profiling-changes-observation', case, exc_sig(e),
                                      sig={'aspect': 'catching-prefetch'})
                        continue
                    res.count('catching_prefetch_reports_read', len(readings))
                    want = [x for x in range(n) if x % 3 != 1]
                    if outs != [want, want]:
                        res.violation('profiling-changes-observation', case,
                                      {'delivered': outs, 'want': want},
                                      sig={'aspect': 'catching-prefetch'})
                    elif any(r != c for r, c in readings):
                        res.violation('hit-count-wrong', case,
                                      {'(reported, calls so far) after each epoch': readings},
                                      sig={'aspect': 'catching-prefetch', 'workers': w})


def shards(tier, seed):
    lim = LIMITS[tier]
    J = 14
    out = [{'name': f'exh{j}', 'what': 'exh', 'mod': J, 'rem': j,
            'depths': list(lim['depths'])} for j in range(J)]
    nr = 2 if tier == 'quick' else 16
    for j in range(nr):
        out.append({'name': f'rand{j}', 'what': 'rand', 'count': lim['nrand'] // nr})
    out.append({'name': 'epochs', 'what': 'epochs', 'nseeds': 3 if tier == 'quick' else 40})
    out.append({'name': 'sched', 'what': 'sched',
                'sched_runs': 40 if tier == 'quick' else 1500,
                'sched_dfs_cap': 300 if tier == 'quick' else 30000})
    return out


def run_shard(spec, res):
    if spec['what'] == 'sched':
        return run_sched(spec, res)
    if spec['what'] == 'epochs':
        run_live_report(spec, res)
        run_catching_prefetch(spec, res)
        return run_epochs(spec, res)
    ld = import_lazy_dataset()
    if spec['what'] == 'exh':
        cnt = 0
        for d in spec['depths']:
            # depth 3 is a seed-dependent 1/29 sample (2.5 M programs otherwise)
            stride = 1 if d < 3 else 29
            for prog in exhaustive(d, SOURCES if d < 3 else SOURCES3):
                cnt += 1
                if cnt % spec['mod'] == spec['rem'] and \
                        (cnt // spec['mod']) % stride == spec['seed'] % stride:
                    check(ld, prog, res)
    else:
        rng = rng_for(spec['seed'], PROPERTY, spec['name'])
        for _ in range(spec['count']):
            prog = programs.random_program(rng, 5)
            if any(op[0] in EXCLUDED for op in prog['ops']):
                continue
            # inject failing stages (and catch stages above them)
            ops = list(prog['ops'])
            for _ in range(rng.choice((0, 1, 1, 2))):
                ops.insert(rng.randint(0, len(ops)), rng.choice(FAULT_OPS))
            if rng.random() < 0.4:
                ops.insert(rng.randint(0, len(ops)), ('catch',))
            if rng.random() < 0.3:
                ops.insert(rng.randint(0, len(ops)), rng.choice(RANDOM_OPS))
            check(ld, {'src': prog['src'], 'ops': ops}, res)


def finalize(res, tier):
    for k in ('transparency_comparisons', 'snapshots_compared', 'stage_counts_compared',
              'prefetch_transparency_comparisons'):
        if res.counters.get(k, 0) < 100:
            res.inconclusive_because(f'monitor {k} evaluated fewer than 100 times')
    return {'exhaustive_depth': max(LIMITS[tier]['depths'])}


def replay(case, res):
    ld = import_lazy_dataset()
    if case.get('catching_prefetch'):
        return run_catching_prefetch({}, res)
    if case.get('live_report'):
        return run_live_report({}, res)
    if 'prog' not in case:
        return run_epochs({'seed': 0, 'name': 'epochs', **LIMITS['quick']}, res)
    check(ld, fix_prog(case['prog']), res)
