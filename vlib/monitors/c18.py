"""C18 - sorting and grouping reorder without losing or inventing examples.

Direct runtime checks on the results (no order among ties is demanded):
  sort(key_fn, reverse)   permutation; sort keys monotone in the requested
                          direction; payloads are dicts (un-orderable) and the
                          sort keys tie, so any comparison of examples raises
                          TypeError; keys()/items() stay attached
  sort()                  ordered by example key, reverse included
  sort(sort_fn=...)       a custom sort_fn only ever sees (value, int) pairs or
                          keys, never an example
  groupby(fn)             groups partition the dataset, each example under its
                          own id, relative order kept inside a group
"""
import itertools

from ..common import import_lazy_dataset, exc_sig, rng_for

PROPERTY = 'C18'
LEVEL = 'exploration'
RULE = ('exhaustive sort-key / group-id sequences over a 3-letter alphabet up to '
        'length L (quick 6, thorough 8) x reverse x backing x upstream shape, '
        'plus key-less sorts over all key orders of length <= 5 (quick) / 6; '
        'non-trivial iff the sequence has >= 2 elements and is not already in '
        'the requested order or contains a tie; distinct by the full case')
ASSUMPTIONS = ['examples are dicts carrying a unique id, so they cannot be ordered '
               'and a lost/duplicated example is visible']
SHARD_TIMEOUT = {'quick': 300, 'thorough': 3000}
LIMITS = {'quick': dict(L=6, LK=5), 'thorough': dict(L=8, LK=6)}

UPSTREAM = ('plain', 'map', 'reversed', 'concat', 'items', 'reversed-touched',
            'nested-touched')


SORT_FORMS = ('kw', 'pos', 'pos2', 'allkw')


def call_sort(ds, key_fn, sort_fn, reverse, form):
    """ds.sort(...) in one of the call forms the signature
    sort(key_fn=None, sort_fn=sorted, reverse=False) allows."""
    if form == 'pos' or (form == 'pos2' and reverse):
        return ds.sort(key_fn, sort_fn or sorted, reverse)
    if form == 'pos2':
        return ds.sort(key_fn, sort_fn or sorted)
    if form == 'allkw':
        return ds.sort(key_fn=key_fn, sort_fn=sort_fn or sorted, reverse=reverse)
    kw = {} if sort_fn is None else {'sort_fn': sort_fn}
    if key_fn is None:
        return ds.sort(reverse=reverse, **kw)
    return ds.sort(key_fn, reverse=reverse, **kw)


def form_for(*parts):
    from ..common import stable_hash
    return SORT_FORMS[stable_hash(repr(parts)) % len(SORT_FORMS)]


def key_of(i, n):
    """Key of example i in a dict-backed dataset of n examples (unique, not
    in sorted order)."""
    if n <= 100:
        return f'k{(i * 7 + 3) % 100:02d}'
    if n <= 1009:
        return f'k{(i * 7 + 3) % 1009:04d}'
    return f'k{(i * 7 + 3) % 100003:06d}'     # 100003 is prime: no collision below it


def make(ld, vals, backing, upstream):
    """Dataset of dict examples {'id': i, 'v': vals[i]}; returns (ds, getter)
    where getter maps a delivered example to (id, v)."""
    n = len(vals)
    exs = [{'id': i, 'v': v} for i, v in enumerate(vals)]
    if backing == 'dict':
        # keys deliberately not in sorted order
        ds = ld.new({key_of(i, n): e for i, e in enumerate(exs)})
    else:
        ds = ld.new(exs)
    get = lambda e: (e['id'], e['v'])
    if upstream == 'map':
        ds = ds.map(lambda e: {'id': e['id'], 'v': e['v'], 'm': 1})
    elif upstream == 'reversed':
        ds = ds[::-1]
    elif upstream in ('reversed-touched', 'nested-touched'):
        # a selection whose keys / key lookup / length were already used before
        # it is sorted or grouped (memoised state must not leak into the result)
        ds = ds[::-1] if upstream == 'reversed-touched' else ds[::-1][::-1]
        try:
            ks = ds.keys()
            if len(ks):
                ds[ks[0]]
            len(ds)
            list(ds.items())
        except Exception:
            pass
    elif upstream == 'concat':
        h = n // 2
        ds = ds[:h].concatenate(ds[h:])
    elif upstream == 'items':
        if backing != 'dict':
            return None, None
        ds = ds.items()
        get = lambda e: (e[1]['id'], e[1]['v'])
    return ds, get


# sort-value domains: the same three symbols mapped to values that stress the
# comparison (exact big integers, mixed int/float, both sides of 2**63, strings,
# tuples); every mapping is injective and order-preserving or not - the oracle
# only uses Python's own comparison of the mapped values
DOMAINS = {
    'small': {0: 0, 1: 1, 2: 2},
    'big53': {0: 2 ** 53 + 1, 1: 2 ** 53 + 2, 2: 2 ** 53 + 3},
    'ns+float': {0: 0.5, 1: 2 ** 53 + 1, 2: 2 ** 53 + 2},
    'u64': {0: -1, 1: 2 ** 63 + 1, 2: 2 ** 63 + 2},
    'huge': {0: 2 ** 64 + 1, 1: 2 ** 64 + 2, 2: 10 ** 30},
    'float-close': {0: 1.0, 1: 1.0 + 2 ** -52, 2: 1.0 + 2 ** -51},
    'str': {0: 'b', 1: 'B', 2: 'a10'},
    'tuple': {0: (1, 'z'), 1: (1, 'a'), 2: (0, 'zz')},
    'bool-int': {0: False, 1: 1, 2: 2.5},
    'neg': {0: -3, 1: -2 ** 53 - 1, 2: -2 ** 53 - 2},
}


def check_sort_domain(ld, vals, domain, reverse, res):
    case = {'op': 'sort-domain', 'vals': list(vals), 'domain': domain, 'reverse': reverse}
    dm = DOMAINS[domain]
    mapped = [dm[v] for v in vals]
    n = len(vals)
    res.case(('sortdom', tuple(vals), domain, reverse),
             n >= 2 and mapped != sorted(mapped, reverse=reverse))
    ds = ld.new({f'k{i}': {'id': i, 'v': m} for i, m in enumerate(mapped)})
    sig = {'op': 'sort', 'keyed': True, 'domain': domain}
    try:
        out = [(e['id'], e['v']) for e in ds.sort(lambda e: e['v'], reverse=reverse)]
    except BaseException as e:
        res.violation('sort-raised', case, exc_sig(e), sig=sig)
        return
    res.count('sort_domain_checks')
    if sorted(i for i, _ in out) != list(range(n)):
        res.violation('sort-not-a-permutation', case, {'out': repr(out)}, sig=sig)
    elif not monotone([v for _, v in out], reverse):
        res.violation('sort-not-monotone', case, {'out': repr(out)}, sig=sig)


def monotone(keys, reverse):
    if reverse:
        return all(a >= b for a, b in zip(keys, keys[1:]))
    return all(a <= b for a, b in zip(keys, keys[1:]))


def check_sort(ld, vals, backing, upstream, reverse, res):
    case = {'op': 'sort', 'vals': list(vals), 'backing': backing,
            'upstream': upstream, 'reverse': reverse}
    ds, get = make(ld, vals, backing, upstream)
    if ds is None:
        return
    n = len(vals)
    nontrivial = n >= 2 and (len(set(vals)) < n or
                             list(vals) != sorted(vals, reverse=reverse))
    res.case(('sort', tuple(vals), backing, upstream, reverse), nontrivial)
    sig = {'op': 'sort', 'keyed': True}
    try:
        case['call_form'] = form_for(tuple(vals), backing, upstream, reverse)
        res.seen('sort_call_forms', case['call_form'])
        out_ds = call_sort(ds, lambda e: get(e)[1], None, reverse, case['call_form'])
        out = [get(e) for e in out_ds]
    except BaseException as e:
        kind = ('sort-compared-examples' if isinstance(e, TypeError)
                else 'sort-raised')
        res.violation(kind, case, exc_sig(e), sig=sig)
        return
    res.count('sorts_checked')
    if sorted(i for i, _ in out) != list(range(n)):
        res.violation('sort-not-a-permutation', case, {'out': out}, sig=sig)
        return
    if any(vals[i] != v for i, v in out):
        res.violation('sort-changed-example', case, {'out': out}, sig=sig)
    if not monotone([v for _, v in out], reverse):
        res.violation('sort-not-monotone', case, {'out': out}, sig=sig)
    try:
        if len(out_ds) != n:
            res.violation('sort-len', case, {'len': len(out_ds)}, sig=sig)
    except BaseException as e:
        res.violation('sort-len-raised', case, exc_sig(e), sig=sig)
    # the sorted dataset transported (deep copy; pickle round trip where the
    # pipeline below can be pickled - what a process backend or a checkpoint
    # does): still the same permutation
    import copy as _copy
    import pickle as _pickle
    for how in ('deepcopy', 'pickle'):
        try:
            t = _copy.deepcopy(out_ds) if how == 'deepcopy' else \
                _pickle.loads(_pickle.dumps(out_ds))
        except BaseException:
            res.count('sorted_dataset_not_transportable')
            continue
        try:
            tout = [get(e) for e in t]
            tlen = len(t)
        except BaseException as e:
            res.violation('sort-not-a-permutation', {**case, 'transported_by': how},
                          exc_sig(e), sig={**sig, 'transported': how})
            return
        res.count('transported_sorted_datasets_compared')
        if tout != out or tlen != n:
            res.violation('sort-not-a-permutation', {**case, 'transported_by': how},
                          {'out': tout, 'want': out, 'len': tlen},
                          sig={**sig, 'transported': how})
            return
    if backing == 'dict' and upstream != 'items':
        try:
            keys = list(out_ds.keys()) if n else None
            items = list(out_ds.items())
        except BaseException as e:
            if n == 0:
                res.count('empty_sort_keys_raised')
            else:
                res.violation('sorted-keys-raised', case, exc_sig(e), sig=sig)
            return
        res.count('sorted_items_checked')
        want = [(key_of(i, len(vals)), i) for i, _ in out]
        got = [(k, e['id']) for k, e in items]
        if got != want or (keys is not None and keys != [k for k, _ in want]):
            res.violation('sorted-keys-detached', case,
                          {'items': got, 'want': want, 'keys': keys}, sig=sig)


def check_dupkeys(ld, vals, how, reverse, res):
    """sort / groupby on top of a combination whose parts share example keys
    (an augmented copy interspersed / concatenated / tiled): examples are still
    a permutation / a partition; keys() and items() of the result are either
    refused loudly or every key is the example's own."""
    n = len(vals)
    case = {'op': 'sort-over-shared-keys', 'vals': list(vals), 'how': how,
            'reverse': reverse}
    res.case(('dupkeys', tuple(vals), how, reverse), n >= 2)
    base = ld.new({key_of(i, n): {'id': i, 'v': v} for i, v in enumerate(vals)})
    aug = base.map(lambda e: {**e, 'aug': True})
    sig = {'op': 'sort', 'keyed': True, 'shared_keys': how}
    try:
        if how == 'intersperse':
            if n == 0:
                return          # an intersperse of empty datasets is not offered
            ds = base.intersperse(aug)
        elif how == 'concat':
            ds = base.concatenate(aug)
        else:
            ds = base.tile(2)
        out_ds = ds.sort(lambda e: e['v'], reverse=reverse)
        out = list(out_ds)
        groups = ds.groupby(lambda e: e['v'])
        gl = {g: list(d_) for g, d_ in groups.items()}
    except BaseException as e:
        res.violation('sort-raised', case, exc_sig(e), sig=sig)
        return
    res.count('sorts_over_shared_keys_checked')
    if sorted(e['id'] for e in out) != sorted(list(range(n)) * 2) or \
            not monotone([e['v'] for e in out], reverse):
        res.violation('sort-not-a-permutation', case, {'out': out}, sig=sig)
        return
    if sorted(e['id'] for g in gl.values() for e in g) != sorted(list(range(n)) * 2) or \
            any(e['v'] != g for g, l in gl.items() for e in l):
        res.violation('groups-not-a-partition', case, {'groups': gl}, sig=sig)
        return
    for name, d_, seq in [('sorted', out_ds, out)] + \
            [(f'group {g}', groups[g], gl[g]) for g in gl]:
        for what in ('keys', 'items'):
            try:
                got = list(d_.keys()) if what == 'keys' else list(d_.items())
            except BaseException:
                res.count('keys_over_shared_keys_refused')
                continue
            res.count('keys_over_shared_keys_returned')
            ids = [e['id'] for e in seq]
            if what == 'keys':
                ok = got == [key_of(i, n) for i in ids]
            else:
                ok = [(k, e['id']) for k, e in got] == [(key_of(i, n), i) for i in ids]
            if not ok:
                res.violation('sorted-keys-detached', {**case, 'of': name, 'asked': what},
                              {'got': repr(got)[:300], 'ids_in_order': ids}, sig=sig)
                return


RAISED_BY_KEY_FN = (ValueError, StopIteration, IndexError, KeyError, TypeError,
                    AssertionError, NotImplementedError)


def check_raising_key(ld, n, pos, exc_type, op, backing, res):
    """The key / group function raises for one example: sort / groupby report
    an error - they never return a result that lacks examples."""
    case = {'op': f'{op}-with-raising-function', 'n': n, 'raises_at': pos,
            'exception': exc_type.__name__, 'backing': backing}
    res.case(('raisingkey', n, pos, exc_type.__name__, op, backing), n >= 2)
    exs = [{'id': i, 'v': (i * 7) % 5} for i in range(n)]
    ds = ld.new({key_of(i, n): e for i, e in enumerate(exs)}) if backing == 'dict' \
        else ld.new(exs)
    raised = []

    def fn(e):
        if e['id'] == pos:
            err = exc_type(('key-fn', pos))
            raised.append(err)
            raise err
        return e['v']
    try:
        if op == 'sort':
            out = list(ds.sort(fn))
        elif op == 'sort-mapped':
            out = list(ds.map(lambda e: dict(e)).sort(fn, reverse=True))
        else:
            out = [e for g in ds.groupby(fn).values() for e in g]
    except BaseException as e:
        res.count('errors_of_key_functions_reported')
        res.seen('key_function_error_surfaced_as', f'{exc_type.__name__}->{type(e).__name__}')
        return
    res.violation('sort-not-a-permutation' if op.startswith('sort')
                  else 'groups-not-a-partition', case,
                  {'returned_ids': [e['id'] for e in out], 'key_function_raised': bool(raised)},
                  sig={'op': op, 'error_path': True})


def check_custom_sort_fn(ld, vals, reverse, res):
    case = {'op': 'sort_fn', 'vals': list(vals), 'reverse': reverse}
    res.case(('sort_fn', tuple(vals), reverse), len(vals) >= 2)
    seen = []

    def sort_fn(seq, reverse=False):
        seq = list(seq)
        seen.extend(seq)
        return sorted(seq, reverse=reverse)

    ds, get = make(ld, vals, 'dict', 'plain')
    try:
        case['call_form'] = form_for('fn', tuple(vals), reverse)
        out = [get(e) for e in call_sort(ds, lambda e: e['v'], sort_fn, reverse,
                                         case['call_form'])]
    except BaseException as e:
        res.violation('sort-raised', case, exc_sig(e), sig={'op': 'sort_fn'})
        return
    res.count('custom_sort_fn_checked')
    for s in seen:
        ok = isinstance(s, tuple) and len(s) == 2 and isinstance(s[1], int) \
            and not isinstance(s[0], dict)
        if not ok:
            res.violation('sort-fn-saw-example', case, {'seen': repr(s)[:100]},
                          sig={'op': 'sort_fn'})
            return
    if not monotone([v for _, v in out], reverse) or \
            sorted(i for i, _ in out) != list(range(len(vals))):
        res.violation('sort-not-monotone', case, {'out': out}, sig={'op': 'sort_fn'})
    # key-less with a custom sort_fn: it must see the keys only
    seen.clear()
    try:
        out = [e['id'] for e in call_sort(ds, None, sort_fn, reverse, case['call_form'])]
    except BaseException as e:
        res.violation('sort-raised', case, exc_sig(e), sig={'op': 'sort_fn', 'keyed': False})
        return
    if not all(isinstance(s, str) for s in seen):
        res.violation('sort-fn-saw-example', case, {'seen': repr(seen)[:100]},
                      sig={'op': 'sort_fn', 'keyed': False})


def check_keyless(ld, perm, reverse, upstream, res):
    """Keys given in the order `perm`; sort() must order by key."""
    case = {'op': 'sort-keyless', 'key_order': list(perm), 'reverse': reverse,
            'upstream': upstream}
    n = len(perm)
    res.case(('keyless', tuple(perm), reverse, upstream),
             n >= 2 and list(perm) != sorted(perm, reverse=reverse))
    ds = ld.new({f'k{p}': {'id': p} for p in perm})
    if upstream == 'map':
        ds = ds.map(lambda e: {'id': e['id'], 'm': 1})
    elif upstream == 'reversed':
        ds = ds[::-1]
    sig = {'op': 'sort', 'keyed': False, 'reverse': reverse}
    try:
        case['call_form'] = form_for('keyless', tuple(perm), reverse, upstream)
        s = call_sort(ds, None, None, reverse, case['call_form'])
        out = [e['id'] for e in s]
        keys = list(s.keys()) if n else []
    except BaseException as e:
        if n == 0:
            res.count('empty_sort_keys_raised')
            return
        res.violation('sort-raised', case, exc_sig(e), sig=sig)
        return
    res.count('keyless_sorts_checked')
    want = sorted(perm, reverse=reverse)
    if sorted(out) != sorted(perm):
        res.violation('sort-not-a-permutation', case, {'out': out}, sig=sig)
    elif out != want:
        res.violation('keyless-sort-wrong-order', case, {'out': out, 'want': want},
                      sig=sig)
    if n and keys != [f'k{p}' for p in out]:
        res.violation('sorted-keys-detached', case, {'keys': keys, 'out': out}, sig=sig)


GROUP_IDS = {
    'int': lambda v: v,
    'str': lambda v: f'g{v}',
    'tuple': lambda v: (v, v % 2),
    'none-mixed': lambda v: None if v == 0 else v,
}


def check_groupby(ld, vals, backing, upstream, idkind, res):
    case = {'op': 'groupby', 'vals': list(vals), 'backing': backing,
            'upstream': upstream, 'ids': idkind}
    ds, get = make(ld, vals, backing, upstream)
    if ds is None:
        return
    n = len(vals)
    res.case(('groupby', tuple(vals), backing, upstream, idkind),
             n >= 2 and len(set(vals)) >= 2)
    gid = GROUP_IDS[idkind]
    sig = {'op': 'groupby'}
    try:
        groups = ds.groupby(lambda e: gid(get(e)[1]))
        got = {k: [get(e) for e in g] for k, g in groups.items()}
    except BaseException as e:
        res.violation('groupby-raised', case, exc_sig(e), sig=sig)
        return
    res.count('groupbys_checked')
    order = [get(e)[0] for e in ds]          # delivery order of the input
    pos = {i: p for p, i in enumerate(order)}
    allids = [i for g in got.values() for i, _ in g]
    if sorted(allids) != list(range(n)):
        res.violation('groups-not-a-partition', case, {'groups': got}, sig=sig)
        return
    for k, g in got.items():
        if not g:
            res.violation('empty-group', case, {'groups': got}, sig=sig)
        for i, v in g:
            if gid(vals[i]) != k or vals[i] != v:
                res.violation('example-in-wrong-group', case, {'groups': got}, sig=sig)
                return
        ps = [pos[i] for i, _ in g]
        if ps != sorted(ps):
            res.violation('group-order-changed', case, {'groups': got}, sig=sig)
            return
    if set(got) != {gid(v) for v in vals}:
        res.violation('group-ids-wrong', case, {'groups': list(got)}, sig=sig)
    if backing == 'dict' and upstream != 'items':
        for k, g in groups.items():
            try:
                its = [(kk, e['id']) for kk, e in g.items()]
            except BaseException as e:
                res.violation('group-items-raised', case, exc_sig(e), sig=sig)
                return
            if any(kk != key_of(i, len(vals)) for kk, i in its):
                res.violation('group-keys-detached', case, {'items': its}, sig=sig)
                return
            try:
                gk = list(g.keys())
                looked = [g[kk]['id'] for kk in gk]
            except BaseException as e:
                res.violation('group-keys-raised', case, exc_sig(e), sig=sig)
                return
            if gk != [kk for kk, _ in its] or looked != [i for _, i in its]:
                res.violation('group-keys-detached', case,
                              {'keys': gk, 'items': its, 'lookups': looked}, sig=sig)
                return
        res.count('group_items_checked')


def shards(tier, seed):
    lim = LIMITS[tier]
    out = []
    for up in UPSTREAM:
        for backing in ('dict', 'list'):
            if up == 'items' and backing == 'list':
                continue
            rs = up == UPSTREAM[0]          # round sizes: plain sources only
            out.append({'name': f'sort-{up}-{backing}', 'what': 'sort', 'round_sizes': rs,
                        'upstream': up, 'backing': backing, **lim})
            out.append({'name': f'group-{up}-{backing}', 'what': 'group', 'round_sizes': rs,
                        'upstream': up, 'backing': backing, **lim})
    out.append({'name': 'keyless', 'what': 'keyless', **lim})
    out.append({'name': 'dupkeys', 'what': 'dupkeys', **lim})
    out.append({'name': 'raisingkey', 'what': 'raisingkey', **lim})
    out.append({'name': 'sortfn', 'what': 'sortfn', **lim})
    return out


def run_shard(spec, res):
    ld = import_lazy_dataset()
    L = spec['L']
    if spec['what'] == 'sort':
        for n in range(0, L + 1):
            for vals in itertools.product((0, 1, 2), repeat=n):
                for reverse in (False, True):
                    check_sort(ld, vals, spec['backing'], spec['upstream'], reverse, res)
        # a few hundred examples with many ties (sizes around 2^8)
        import random as _r
        rr = _r.Random(spec['seed'] * 7 + len(spec['name']))
        for n in (127, 128, 129, 255, 256, 257, 700):
            vals = tuple(rr.randrange(0, 9) for _ in range(n))
            for reverse in (False, True):
                check_sort(ld, vals, spec['backing'], spec['upstream'], reverse, res)
                res.count('large_sorts_checked')
        # round sizes (multiples of 10000): where code that works in blocks
        # has its block boundaries
        if spec.get('round_sizes'):
            import time as _t
            for n in (10000, 20000):
                vals = tuple(rr.randrange(0, 9) for _ in range(n))
                t0 = _t.monotonic()
                check_sort(ld, vals, spec['backing'], spec['upstream'], n == 20000, res)
                res.count('round_size_sorts_checked')
                res.maximum('seconds_for_a_round_size_sort', int(_t.monotonic() - t0))
        res.sample({'op': 'sort', 'vals': [2, 0, 2, 1], 'backing': spec['backing'],
                    'upstream': spec['upstream'], 'reverse': True})
    elif spec['what'] == 'group':
        for n in range(0, L + 1):
            for vals in itertools.product((0, 1, 2), repeat=n):
                kinds = GROUP_IDS if n <= L - 2 else ('int', 'none-mixed')
                for idkind in kinds:
                    check_groupby(ld, vals, spec['backing'], spec['upstream'], idkind, res)
        import random as _r
        rr = _r.Random(spec['seed'] * 11 + len(spec['name']))
        for n in (128, 129, 256, 257, 700):
            vals = tuple(rr.randrange(0, 5) for _ in range(n))
            for idkind in ('int', 'none-mixed'):
                check_groupby(ld, vals, spec['backing'], spec['upstream'], idkind, res)
                res.count('large_groupbys_checked')
        if spec.get('round_sizes'):
            # groups of exactly 10000 / 20000 members
            for n, k in ((30000, 3), (40000, 2)):
                vals = tuple(i % k for i in range(n))
                check_groupby(ld, vals, spec['backing'], spec['upstream'], 'int', res)
                res.count('round_size_groupbys_checked')
    elif spec['what'] == 'raisingkey':
        for n in range(1, L + 1):
            for pos in range(n):
                for exc_type in RAISED_BY_KEY_FN:
                    for op in ('sort', 'sort-mapped', 'groupby'):
                        for backing in ('dict', 'list'):
                            check_raising_key(ld, n, pos, exc_type, op, backing, res)
    elif spec['what'] == 'dupkeys':
        for n in range(0, L):
            for vals in itertools.product((0, 1, 2), repeat=n):
                for how in ('intersperse', 'concat', 'tile'):
                    for reverse in (False, True):
                        check_dupkeys(ld, vals, how, reverse, res)
    elif spec['what'] == 'keyless':
        for n in range(0, spec['LK'] + 1):
            for perm in itertools.permutations(range(n)):
                for reverse in (False, True):
                    for up in ('plain', 'map', 'reversed'):
                        check_keyless(ld, perm, reverse, up, res)
        res.sample({'op': 'sort-keyless', 'key_order': [2, 0, 1], 'reverse': True})
        # datasets without keys must refuse a key-less sort
        for n in (0, 2, 4):
            try:
                out = list(ld.new(list(range(n))).sort())
                res.violation('keyless-sort-without-keys-accepted', {'n': n},
                              {'out': out}, sig={'op': 'sort', 'keyed': False})
            except BaseException:
                res.count('keyless_sort_refusals')
    elif spec['what'] == 'sortfn':
        for n in range(0, min(L, 6) + 1):
            for vals in itertools.product((0, 1, 2), repeat=n):
                for domain in DOMAINS:
                    for reverse in (False, True):
                        check_sort_domain(ld, vals, domain, reverse, res)
        for n in range(0, min(L, 6) + 1):
            for vals in itertools.product((0, 1, 2), repeat=n):
                for reverse in (False, True):
                    check_custom_sort_fn(ld, vals, reverse, res)


def finalize(res, tier):
    for k in ('sorts_checked', 'keyless_sorts_checked', 'groupbys_checked',
              'custom_sort_fn_checked', 'sorted_items_checked'):
        if res.counters.get(k, 0) == 0:
            res.inconclusive_because(f'monitor {k} never evaluated')
    return {'exhaustive': True}


def replay(case, res):
    ld = import_lazy_dataset()
    op = case['op']
    if op == 'sort':
        check_sort(ld, case['vals'], case['backing'], case['upstream'], case['reverse'], res)
    elif op == 'sort_fn':
        check_custom_sort_fn(ld, case['vals'], case['reverse'], res)
    elif op.endswith('-with-raising-function'):
        check_raising_key(ld, case['n'], case['raises_at'],
                          {t.__name__: t for t in RAISED_BY_KEY_FN}[case['exception']],
                          op[:-len('-with-raising-function')], case['backing'], res)
    elif op == 'sort-over-shared-keys':
        check_dupkeys(ld, case['vals'], case['how'], case['reverse'], res)
    elif op == 'sort-keyless':
        check_keyless(ld, case['key_order'], case['reverse'], case['upstream'], res)
    elif op == 'sort-domain':
        check_sort_domain(ld, case['vals'], case['domain'], case['reverse'], res)
    elif op == 'groupby':
        check_groupby(ld, case['vals'], case['backing'], case['upstream'], case['ids'], res)
