"""C15 - shards partition the dataset.

Exhaustive over (n, k): every length 0..N and every shard count -1..n+2; all k
parts of split(k) are observed (values and, for dict-backed data, keys) and
checked against the statement directly: disjoint, complete, order-preserving,
sizes within one, shard(k, i) == split(k)[i]; k < 1 or k > n must be refused.
"""
from ..common import import_lazy_dataset, exc_sig

PROPERTY = 'C15'
LEVEL = 'exploration'
RULE = ('exhaustive enumeration of (n, k, backing) with 0<=n<=N, -1<=k<=n+2, '
        'backing in {list, dict, dict behind map / nested slice / 3-way concatenation / cache}; a case is one (n, k, backing); non-trivial '
        'iff 1<=k<=n (parts were observed) or the refusal was observed; '
        'distinct by (n, k, backing)')
ASSUMPTIONS = ['source examples are the integers 0..n-1 (unique ids), so a '
               'lost, duplicated or moved example is visible in the value']
SHARD_TIMEOUT = {'quick': 300, 'thorough': 3000}

LIMITS = {'quick': dict(N=60, ND=40, NSHARD_ALL=40),
          'thorough': dict(N=300, ND=80, NSHARD_ALL=80)}


def shards(tier, seed):
    lim = LIMITS[tier]
    out = []
    J = 16
    for j in range(J):
        out.append({'name': f'list{j}', 'backing': 'list', 'mod': J, 'rem': j,
                    'N': lim['N'], 'all_i': lim['NSHARD_ALL']})
    for j in range(J):
        out.append({'name': f'dict{j}', 'backing': 'dict', 'mod': J, 'rem': j,
                    'N': lim['ND'], 'all_i': lim['NSHARD_ALL']})
    for backing in ('dict-map', 'dict-slice', 'dict-concat', 'dict-cache') + WARM:
        for j in range(2):
            out.append({'name': f'{backing}{j}', 'backing': backing, 'mod': 2, 'rem': j,
                        'N': lim['ND'] // 2, 'all_i': 10})
    for j in range(8):
        out.append({'name': f'large{j}', 'backing': 'large', 'mod': 8, 'rem': j})
    return out


# datasets that are selections already (index arrays on index arrays when they
# are split) and whose keys(), len() and a key lookup were used before the split
WARM = ('dict-shuffled-warm', 'dict-sorted-warm', 'dict-reversed-warm',
        'dict-tail-warm', 'dict-fancy-warm', 'dict-shuffled-cold')


def make(ld, n, backing):
    """backing: list | dict | dict over an upstream pipeline that yields the
    same examples (so the same oracle applies to split/shard of derived
    datasets, not only of sources)."""
    if backing == 'list':
        return ld.new(list(range(n))), None
    keys = [f'k{i}' for i in range(n)]
    ds = ld.new({k: i for i, k in enumerate(keys)})
    if backing == 'dict-map':
        ds = ds.map(lambda x: x)
    elif backing == 'dict-slice':
        ds = ds[::-1][::-1]
    elif backing == 'dict-concat':
        h = n // 3
        ds = ds[:h].concatenate(ds[h:2 * h], ds[2 * h:]) if n else ds
    elif backing == 'dict-cache':
        ds = ds.cache()
    elif backing in WARM:
        import numpy as np
        if 'shuffled' in backing:
            ds = ds.shuffle(rng=np.random.RandomState(n))
        elif 'sorted' in backing:
            ds = ds.sort(lambda x: -x)
        elif 'reversed' in backing:
            ds = ds[::-1]
        elif 'tail' in backing:
            ds = ds[n // 4:]
        elif 'fancy' in backing:
            ds = ds[[i for i in range(n) if i % 3 != 1][::-1]]
        if backing.endswith('-warm'):
            ks = ds.keys()
            len(ds)
            if ks:
                ds[ks[0]], ds[ks[-1]], ds[0]
        keys = list(ds.keys()) if backing.endswith('-warm') else None
        return ds, keys
    return ds, keys


def check_case(ld, n, k, backing, all_i, res):
    case = {'n': n, 'k': k, 'backing': backing}
    ds, keys = make(ld, n, backing)
    n0 = n
    if backing in WARM:
        want = list(ds)            # the selection's own order and size
        n = len(want)
        if keys is None:
            keys = [f'k{v}' for v in want]
    else:
        want = list(range(n))
    legal = 1 <= k <= n
    try:
        parts = ds.split(k) if (n0 + k) % 2 else ds.split(sections=k)
    except BaseException as e:
        if legal:
            res.violation('refused-legal-split', case, exc_sig(e))
        else:
            res.count('refusals_observed')
            res.seen('refusal_types', type(e).__name__)
        res.case((n0, k, backing))
        return
    if not legal:
        res.violation('accepted-illegal-count', case,
                      {'parts': len(parts)}, sig={'which': 'split'})
        res.case((n0, k, backing))
        return
    res.case((n0, k, backing))
    lists = [list(p) for p in parts]
    res.count('parts_observed', len(lists))
    if len(lists) != k:
        res.violation('wrong-number-of-parts', case, {'got': len(lists)})
    flat = [x for p in lists for x in p]
    if flat != want:
        kind = ('not-a-partition' if sorted(flat) != sorted(want)
                else 'order-not-preserved')
        res.violation(kind, case, {'parts': lists if n <= 12 else None})
    sizes = [len(p) for p in lists]
    if sizes and max(sizes) - min(sizes) > 1:
        res.violation('unbalanced', case, {'sizes': sizes})
    for p, l in zip(parts, lists):
        if len(p) != len(l):
            res.violation('len-mismatch', case, {'len': len(p), 'iter': len(l)})
    if keys is not None:
        kflat = [kk for p in parts for kk in p.keys()]
        if kflat != keys:
            res.violation('keys-not-partitioned', case, None)
        for p, l in zip(parts, lists):
            if [int(kk[1:]) for kk in p.keys()] != l:
                res.violation('keys-misaligned', case, None)
        res.count('key_tuples_observed', len(parts))
        # disjoint in the keyed view as well: a shard serves its own keys and
        # refuses every key that belongs to another shard
        for pi, (p, l) in enumerate(zip(parts, lists)):
            if pi not in (0, len(parts) // 2, len(parts) - 1):
                continue
            own = set(l)
            for v in want:
                kk = f'k{v}'
                try:
                    got = p[kk]
                except BaseException:
                    if v in own:
                        res.violation('shard-refuses-own-key', {**case, 'part': pi,
                                                                'key': kk}, None)
                        break
                    res.count('foreign_key_refusals')
                    continue
                res.count('shard_key_lookups')
                if v not in own or got != v:
                    res.violation('shard-serves-foreign-key', {**case, 'part': pi,
                                                               'key': kk}, {'got': got})
                    break
    # deriving other datasets from a shard (a per-epoch shuffle, a sorted view,
    # a sample) leaves the shard as it is
    if (n0 + k) % 2 == 0:
        import numpy as np
        for pi in sorted({0, len(parts) - 1}):
            p = parts[pi]
            try:
                p.shuffle(rng=np.random.RandomState(1))
                list(p.shuffle(rng=np.random.RandomState(2)))
                p.sort(lambda x: -x)
                p[::-1]
                if len(p):
                    p.random_choice(1, rng_state=np.random.RandomState(3))
                p.copy()
            except BaseException as e:
                res.violation('shard-derivation-raised', {**case, 'part': pi}, exc_sig(e))
                break
            res.count('shards_rechecked_after_deriving')
            now = list(p)
            if now != lists[pi] or (keys is not None and
                                    [int(kk[1:]) for kk in p.keys()] != lists[pi]):
                res.violation('order-not-preserved', {**case, 'part': pi,
                                                      'after': 'deriving a shuffled / sorted view'},
                              {'shard_now': now[:12], 'shard_before': lists[pi][:12]})
                break
    # shard(k, i) == split(k)[i]
    if n <= all_i:
        idx = list(range(k)) + [-1]
    else:
        idx = sorted({0, k // 2, k - 1, -1})
    for i in idx:
        try:
            sh = list(ds.shard(k, i) if (k + i) % 2 else
                      ds.shard(num_shards=k, shard_index=i))
        except BaseException as e:
            res.violation('shard-refused', {**case, 'i': i}, exc_sig(e))
            continue
        res.count('shard_calls')
        if sh != lists[i]:
            res.violation('shard-differs-from-split', {**case, 'i': i},
                          {'shard': sh[:10], 'split': lists[i][:10]})
    # what split() hands out belongs to the caller: changing that list (taking
    # a hold-out fold, reordering) must not change what a later split / shard
    # on the same dataset returns
    if k >= 2 and (n + k) % 3 == 0:
        first = ds.split(k)
        first.pop()
        first.reverse()
        if first:
            first[0] = first[-1]
        again = [list(p) for p in ds.split(k)]
        res.count('split_after_caller_mutation_checks')
        if again != lists:
            res.violation('split-result-shared-with-caller', case,
                          {'second_split': again if n <= 12 else len(again)})
        elif list(ds.shard(k, k - 1)) != lists[k - 1]:
            res.violation('shard-differs-from-split', {**case, 'i': k - 1},
                          {'after': 'caller changed the list returned by split'})
    # out-of-range shard index must be refused
    for i in (k, -k - 1):
        try:
            sh = list(ds.shard(k, i))
            res.violation('shard-index-out-of-range-accepted',
                          {**case, 'i': i}, {'got': sh[:10]})
        except BaseException:
            res.count('shard_index_refusals')
    if not legal:
        return


def check_illegal_shard(ld, n, k, backing, res):
    ds, _ = make(ld, n, backing)
    try:
        sh = list(ds.shard(k, 0))
        res.violation('accepted-illegal-count', {'n': n, 'k': k, 'backing': backing},
                      {'got': sh[:10]}, sig={'which': 'shard'})
    except BaseException:
        res.count('shard_illegal_refusals')


def run_shard(spec, res):
    if spec['backing'] == 'large':
        return run_large(spec, res)
    ld = import_lazy_dataset()
    cnt = 0
    for n in range(0, spec['N'] + 1):
        for k in range(-1, n + 3):
            cnt += 1
            if cnt % spec['mod'] != spec['rem']:
                continue
            check_case(ld, n, k, spec['backing'], spec['all_i'], res)
            if not (1 <= k <= n) and spec['backing'] not in WARM:
                check_illegal_shard(ld, n, k, spec['backing'], res)
            if len(res.samples) < 2 and 1 <= k <= n and n >= 5 \
                    and spec['backing'] not in WARM:
                ds, _ = make(ld, n, spec['backing'])
                res.sample({'n': n, 'k': k, 'backing': spec['backing'],
                            'parts': [list(p) for p in ds.split(k)]})


# every length next to a power of two from 2^7 to 2^16 (where the width of an
# index representation may change), and a few others
LARGE = tuple(sorted({2 ** k + d for k in range(7, 17) for d in (-1, 0, 1, 2)}
                     | {1000, 4099}))


def run_large(spec, res):
    """Lengths around 2^8 .. 2^12 with a spread of shard counts (including
    k = n, n - 1, just above and below the powers of two)."""
    ld = import_lazy_dataset()
    for j, n in enumerate(LARGE):
        if j % spec.get('mod', 1) != spec.get('rem', 0):
            continue
        if n <= 1100:
            ks = sorted({1, 2, 3, 7, 16, 127, 128, 129, 255, 256, 257, n // 2, n - 1, n,
                         n + 1})
        else:
            ks = sorted({1, 2, 3, 129, 257, n + 1})
        for backing in ('list', 'dict', 'dict-shuffled-warm'):
            if backing != 'list' and n > 1100:
                continue
            for k in ks:
                check_case(ld, n, k, backing, 0, res)
                res.count('large_cases')


def finalize(res, tier):
    lim = LIMITS[tier]
    expected = sum(n + 4 for n in range(lim['N'] + 1)) + \
        sum(n + 4 for n in range(lim['ND'] + 1)) + \
        (4 + len(WARM)) * sum(n + 4 for n in range(lim['ND'] // 2 + 1))
    expected += res.counters.get('large_cases', 0)
    if res.counters.get('large_cases', 0) == 0:
        res.inconclusive_because('no large case ran')
    if res.evaluations != expected:
        res.inconclusive_because(
            f'enumerated {res.evaluations} (n,k) cases, expected {expected}')
    if res.counters.get('parts_observed', 0) == 0:
        res.inconclusive_because('no part was observed')
    return {'exhaustive': True, 'max_n_list': lim['N'], 'max_n_dict': lim['ND'],
            'expected_cases': expected}


def replay(case, res):
    ld = import_lazy_dataset()
    check_case(ld, case['n'], case['k'], case['backing'], 10 ** 9, res)
