"""C05 - stopping a prefetching iteration anywhere terminates cleanly.

Executions of the real shutdown protocol under the controlled scheduler, for
every stop plan: exhaustion, close() after k, dropping the iterator after k,
throw(E) into it after k, an error in the source or the function; k = 0..n+1.
  deadlock     a reachable state with every thread blocked (a state, not a
               timeout), with what each thread is blocked on
  leak         a thread created by the iteration not finished once control is
               back with the consumer (all other threads are run until they
               finish or block for good)
  late code    a pull/start/end event after close-return
  cancel       under the consumer-first-after-close policy a correct terminate()
               cancels every queued task before a worker can take one, so
               "tasks started after close-call" must be exactly 0
Real threads (yield injection, logical hang detection) and the process pools
(no start record after the iterator was closed, second iteration works) repeat
the scenarios without schedule control.
"""
from .. import conc, concshards as cs, detsched as D
from ..common import rng_for
from .c04 import hang_exit

PROPERTY = 'C05'
LEVEL = 'exploration'
RULE = ('a case is one execution (scenario incl. stop plan, schedule); stop plans: '
        'exhaust | close/drop/throw after k (k = 0..n+1) | source or function error '
        'at j; schedules: all with <= c preemptions on n <= 2/3 (c=2 quick, 3 '
        'thorough), seeded random/PCT/directed beyond; non-trivial iff >= 2 threads '
        'were enabled at some point; distinct by the event trace')
ASSUMPTIONS = ['"finite time" is restated as: no reachable all-blocked state and every '
               'stop returns within the step bound of the scheduler',
               'pathos keeps worker processes alive by design; only threads and late '
               'user code are judged']
SHARD_TIMEOUT = {'quick': 600, 'thorough': 7000}
LIMITS = {
    'quick': dict(dfs_n=2, dfs_b=2, dfs_bound=2, dfs_cap=320, rnd_n=4, rnd_b=3, rnd_w=2,
                  rnd_runs=10, dir_runs=8, real_runs=300, proc_cases=1),
    'thorough': dict(dfs_n=3, dfs_b=2, dfs_bound=3, dfs_cap=8000, rnd_n=6, rnd_b=4,
                     rnd_w=3, rnd_runs=120, dir_runs=80, real_runs=4000, proc_cases=4),
}


def stop_plans(n):
    plans = [['exhaust']]
    for k in range(0, n + 2):
        plans += [['close', k], ['drop', k], ['throw', k]]
    return plans


def scenarios(nmax, bmax, wmax, faults=True):
    out = []
    for entry, n, b, w in cs.configs(nmax, bmax, wmax):
        for stop in stop_plans(n):
            out.append(cs.make(entry, n, b, w, stop=stop))
        if faults and entry in ('stp', 'lpm', 'pf1', 'parmap') and n in (0, 2):
            for kind in ('value', 'base'):
                out.append(cs.make(entry, n, b, w, faults={'iter': kind}))
        if faults and n >= 1:
            for j in sorted({0, n - 1}):
                out.append(cs.make(entry, n, b, w, faults={'src': {str(j): 'value'}}))
                out.append(cs.make(entry, n, b, w, faults={'fn': {str(j): 'user'}}))
                if entry in ('pf1', 'pft', 'parmap', 'chain', 'chainmid', 'chainpar', 'parpf1'):
                    # the same through .items(): the keyed iteration of a stage
                    # is other code than the plain one
                    out.append(cs.make(entry, n, b, w, faults={'fn': {str(j): 'user'}},
                                       key=True))
                    if j == 0 and n >= 2:
                        out.append(cs.make(entry, n, b, w, stop=['close', 1], key=True))
                if n >= 2:
                    out.append(cs.make(entry, n, b, w, stop=['close', 1],
                                       faults={'fn': {str(n - 1): 'value'}}))
    return out


def shards(tier, seed):
    lim = LIMITS[tier]
    out = []
    J = 8
    for j in range(J):
        out.append({'name': f'dfs{j}', 'what': 'dfs', 'mod': J, 'rem': j, **lim})
    for j in range(3):
        out.append({'name': f'rnd{j}', 'what': 'rnd', 'mod': 3, 'rem': j, **lim})
    out.append({'name': 'directed', 'what': 'directed', **lim})
    for j in range(2):
        out.append({'name': f'real{j}', 'what': 'real', 'mod': 2, 'rem': j, **lim})
    from ..procpool import BACKENDS
    for be in BACKENDS:
        out.append({'name': f'proc-{be}', 'what': 'proc', 'backend': be, **lim})
    return out


def run_shard(spec, res):
    what = spec['what']
    if what in ('dfs', 'rnd', 'directed'):
        conc.env()

        def on_run(sc, r, directed=False):
            cs.note(res, sc, r)
            conc.judge_termination(sc, r, res, directed=directed)
            res.seen('stop_plans', tuple(sc['stop']))
            res.case(conc.trace_hash(r['events']), r['max_enabled'] >= 2)
        if what == 'dfs':
            scs = scenarios(spec['dfs_n'], spec['dfs_b'], 2)
            for i, sc in enumerate(scs):
                if i % spec['mod'] != spec['rem']:
                    continue
                dfs = cs.explore_dfs(sc, spec['dfs_bound'], spec['dfs_cap'], on_run)
                res.count('dfs_scenarios')
                if dfs.complete:
                    res.count('dfs_scenarios_exhausted_within_bound')
            res.sample({'scenario': scs[(7 * spec['rem'] + 3) % len(scs)],
                        'schedules': 'all with <= %d preemptions' % spec['dfs_bound']})
        elif what == 'rnd':
            rng = rng_for(spec['seed'], PROPERTY, spec['name'])
            scs = scenarios(spec['rnd_n'], spec['rnd_b'], spec['rnd_w'])
            for i, sc in enumerate(scs):
                if i % spec['mod'] != spec['rem'] or sc['n'] < 2:
                    continue
                cs.explore_random(sc, spec['rnd_runs'], rng, on_run)
        else:
            import random
            rng = rng_for(spec['seed'], PROPERTY, spec['name'])
            for entry, n, b, w in cs.configs(6, 4, 3, entries=conc.POOL_ENTRIES):
                if n < b + 1:
                    continue
                for k in sorted({0, 1, 2}):
                    for how in ('close', 'drop'):
                        sc = cs.make(entry, n, b, w, stop=[how, k])
                        for _ in range(spec['dir_runs']):
                            seed = rng.randrange(1 << 30)
                            r = conc.run(sc, D.consumer_first_after(
                                'close_call', random.Random(seed)))
                            r['policy'] = ('consumer-first', seed)
                            on_run(sc, r, directed=True)
    elif what == 'real':
        run_real(spec, res)
    else:
        run_proc(spec, res)


def run_real(spec, res):
    from .. import realthreads as rt
    e = conc.env(shim=False)
    counter = rt.install_perturbation(e['pu'], spec['seed'], 0.08)
    rng = rng_for(spec['seed'], PROPERTY, spec['name'])
    scs = [sc for sc in scenarios(5, 3, 3) if sc['n'] >= 2]
    for i in range(spec['real_runs'] // spec['mod']):
        sc = rng.choice(scs)
        seed = rng.randrange(1 << 30)
        r = rt.run(sc, seed, on_hang=hang_exit(res, sc, seed))
        res.count('real_thread_executions')
        conc.judge_termination(sc, r, res)
        res.case(('real', conc.trace_hash(r['events'])), True)
    res.count('yield_injection_line_events', counter[0])


def run_proc(spec, res):
    from .. import procpool as pp
    be = spec['backend']
    rng = rng_for(spec['seed'], PROPERTY, spec['name'])
    for entry in ('pft', 'parmap'):
        for k in (0, 1, 3)[:1 + 2 * spec['proc_cases']]:
            n, w = 8, 2
            b = rng.choice((2, 3))
            sc = {'entry': entry, 'n': n, 'b': b, 'w': w, 'backend': be,
                  'delays': [0.02, 0.0, 0.01], 'stop': ['close', k], 'again': True,
                  'settle': 0.6}
            r = pp.run_case(sc)
            case = {'scenario': sc}
            sig = {'entry': entry, 'backend': be, 'harness': 'process-pool',
                   'stop': 'close'}
            if r.get('timeout'):
                res.violation('hang-process-pool', case, None, sig=sig)
                continue
            if r.get('crash'):
                res.inconclusive_because(f'process-pool case crashed: {r}')
                continue
            res.count('process_pool_executions')
            res.case(('proc', be, entry, k), True)
            closed = r.get('closed_at')
            second = r.get('second') or {}
            # records of the second iteration start after the settle time
            if closed is not None:
                late = [x for x in r['records']
                        if x[0] == 'start' and closed + 0.05 < x[2] < closed + 0.5]
                res.count('proc_late_start_checks')
                if late:
                    res.violation('task-started-after-consumer-stopped', case,
                                  {'late': late[:5], 'closed_at': closed}, sig=sig)
                    continue
            want = [('f', i) for i in range(n)]
            if pp.delivered(second) != want or second.get('outcome') != 'exhausted':
                res.violation('iteration-after-early-stop-fails', case,
                              {'second': second}, sig=sig)
    run_proc_slow(spec, res)
    run_proc_two_iterators(spec, res)


def run_proc_two_iterators(spec, res):
    """Two iterations of one process-pool prefetch alive; closing the first
    (while the second has tasks in flight) does not stop the second."""
    from .. import procpool as pp
    be = spec['backend']
    for entry in ('pft', 'parmap'):
        sc = {'entry': entry, 'n': 7, 'b': 3, 'w': 2, 'backend': be, 'delays': [0.15],
              'two_iterators_one_closed': True}
        r = pp.run_case(sc, timeout=60)
        case = {'scenario': sc}
        sig = {'entry': entry, 'backend': be, 'harness': 'process-pool',
               'stop': 'close-one-of-two'}
        res.case(('proc-two', be, entry), True)
        if r.get('timeout'):
            res.violation('hang-process-pool', case, {'second_iterator': 'never finished'},
                          sig=sig)
            continue
        if r.get('crash'):
            res.inconclusive_because(f'process-pool case crashed: {str(r)[:300]}')
            continue
        res.count('process_pool_executions')
        res.count('proc_two_iterators_one_closed_checks')
        second = r['second']
        if pp.delivered(second) != [('f', i) for i in range(7)] or \
                second['outcome'] != 'exhausted':
            res.violation('iteration-after-early-stop-fails', case, {'second': second}, sig=sig)


def run_proc_slow(spec, res):
    """Worker processes that are in the middle of a slow user function when the
    consumer stops (close / drop): once control is back, no record of user code
    may carry a later time stamp (CLOCK_MONOTONIC is system wide), i.e. the
    workers were waited for or killed, not left running."""
    from .. import procpool as pp
    be = spec['backend']
    for entry in ('pft', 'parmap'):
        for how, k in (('close', 1), ('drop', 2), ('close', 0))[:1 + spec['proc_cases']]:
            sc = {'entry': entry, 'n': 10, 'b': 3, 'w': 2, 'backend': be,
                  'delays': [0.3], 'stop': [how, k], 'again': False, 'settle': 1.2}
            r = pp.run_case(sc)
            case = {'scenario': sc}
            sig = {'entry': entry, 'backend': be, 'harness': 'process-pool', 'stop': how}
            if r.get('timeout'):
                res.violation('hang-process-pool', case, None, sig=sig)
                continue
            if r.get('crash') or r.get('closed_at') is None:
                res.inconclusive_because(f'process-pool case crashed: {str(r)[:300]}')
                continue
            res.count('process_pool_executions')
            res.count('proc_slow_task_stop_checks')
            res.case(('proc-slow', be, entry, how, k), True)
            closed = r['closed_at']
            late = [(x[0], x[1], round(x[2] - closed, 3)) for x in r['records']
                    if x[2] > closed]
            res.count('proc_tasks_in_flight_at_stop',
                      len({x[1] for x in r['records'] if x[0] == 'start'})
                      - len({x[1] for x in r['records'] if x[0] == 'end'}))
            if late:
                res.violation('user-code-ran-after-control-returned', case,
                              {'records_after_control_returned (what, i, seconds late)':
                               late[:6]}, sig=sig)


def finalize(res, tier):
    extra = cs.finalize_common(res)
    for k in ('directed_cancellation_checks', 'real_thread_executions',
              'process_pool_executions', 'dfs_scenarios'):
        if res.counters.get(k, 0) == 0:
            res.inconclusive_because(f'{k} is zero')
    extra['preemption_bound'] = LIMITS[tier]['dfs_bound']
    return extra


def replay(case, res):
    sc = case['scenario']
    if sc.get('backend') is not None:
        return
    conc.env()
    r = conc.run(sc, D.replay_chooser(case.get('choices', [])))
    conc.judge_termination(sc, r, res, directed=False)
