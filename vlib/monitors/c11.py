"""C11 - disk cache is reused exactly and cleared exactly when asked.

Two monitors.

lifecycle   a history of open(reuse, clear) / access / copy / release over ONE
            cache directory is run against the real DiskCacheDataset; after
            every operation the returned values, the upstream call counter of
            the current instance and the existence of the directory are compared
            with a small model (stored set, live holders).
crash       a child process fills the cache and acknowledges every completed
            access; the parent SIGKILLs it after the k-th acknowledgement (every
            k) and at random instants after its `ready` line (so that kills land
            inside a store, including stores of >32 KiB values that diskcache
            writes as separate files first).  A fresh child reopens with
            reuse=True: all values must be right and no acknowledged example may
            be recomputed.
"""
import gc
import os
import json
import time
import shutil
import signal
import tempfile
import itertools
import subprocess

from ..common import (import_lazy_dataset, exc_sig, rng_for, PYTHON, HOME, REPO)

PROPERTY = 'C11'
LEVEL = 'fault_enumeration'
RULE = ('lifecycle: histories over {open(reuse,clear), get(kind,i), copy, '
        'release(h)}: exhaustive for the 4 reuse x clear combinations with '
        'scripted shapes, random histories of length 12-15 otherwise; crash: kill '
        'after every k-th acknowledged store (k=0..n) and at seeded random '
        'instants; non-trivial iff the history reopened the directory or a kill '
        'left at least one stored example; distinct by history / kill point')
ASSUMPTIONS = ['"released" = last reference dropped while the interpreter is alive '
               '(del + gc.collect())',
               'SIGKILL of the process, not power loss: the OS keeps written pages',
               '>= 6 GB free disk space in the scratch location (library guard)']
SHARD_TIMEOUT = {'quick': 400, 'thorough': 3400}
LIMITS = {'quick': dict(nlife=160, crash_n=12, rand_n=60, nrandkill=30),
          'thorough': dict(nlife=3000, crash_n=200, rand_n=200, nrandkill=300)}


def payload(i):
    # falsy and None examples are legitimate pipeline values too
    if i % 7 == 1:
        return None
    if i % 7 == 5:
        return 0
    if i % 7 == 4:
        return []
    # (40000: the serialised example is larger than 32 KiB, the size from
    # which the disk store keeps a value in a file of its own instead of in
    # its database)
    size = (40000 if i % 9 == 0 else 9000) if i % 3 == 0 else 3 + i % 5
    return {'id': i, 'payload': [i] * size}


# ---------------------------------------------------------------- lifecycle
class Life:
    def __init__(self, ld, tmp, n):
        self.ld = ld
        self.n = n
        self.keys = [f'k{i}' for i in range(n)]
        self.dir = os.path.join(tmp, 'cache')
        self.stored = set()
        self.handles = []
        self.extras = []       # wrappers that hold a copy of a handle
        self.calls = None
        self.clear = None

    def nonempty(self):
        return os.path.isdir(self.dir) and len(os.listdir(self.dir)) > 0

    def open(self, reuse, clear):
        calls = []

        def m(x):
            calls.append(x)
            return payload(x)
        base = self.ld.new(dict(zip(self.keys, range(self.n)))).map(m)
        self.opens = getattr(self, 'opens', 0) + 1
        ds = base.diskcache(self.dir, reuse, clear) if self.opens % 2 else \
            base.diskcache(cache_dir=self.dir, reuse=reuse, clear=clear)
        self.handles = [ds]
        self.calls = calls
        self.clear = clear

    def get(self, kind, i, h):
        ds = self.handles[h % len(self.handles)]
        n = self.n
        if kind == 'idx':
            return [(i, ds[i])]
        if kind == 'neg':
            return [(i, ds[i - n])]
        if kind == 'key':
            return [(i, ds[self.keys[i]])]
        if kind == 'iter':
            return list(zip(range(i + 1), ds))
        if kind == 'slice':
            return list(zip(range(n)[i:], ds[i:]))
        if kind == 'items':
            return [(int(k[1:]), v) for k, v in ds.items()]
        if kind == 'iter-nested':
            # an iteration suspended after its first example while the cache is
            # read from the end and completely through a copy
            out = []
            for pos, v in enumerate(ds):
                out.append((pos, v))
                if pos == 0:
                    out.append((n - 1, ds[-1]))
                    out += list(enumerate(ds.copy()))
                if pos >= i:
                    break
            return out
        if kind in ('iter-consume', 'items-consume'):
            # a consumer that works on the examples in place (adds a field,
            # empties a list) inside the loop body; what it was handed is
            # compared before it touches it
            import copy
            out = []
            src = ds.items() if kind == 'items-consume' else zip(self.keys, ds)
            for k, v in src:
                out.append((int(k[1:]), copy.deepcopy(v)))
                if isinstance(v, dict):
                    v['consumed'] = True
                    v['payload'].clear()
                elif isinstance(v, list):
                    v.append('consumed')
                if len(out) > i:
                    break
            return out
        raise ValueError(kind)


def run_life(ld, n, hist, res):
    case = {'n': n, 'history': [list(op) for op in hist]}
    tmp = tempfile.mkdtemp(prefix='verif_c11_')
    reopened = 0
    opens = 0
    try:
        w = Life(ld, tmp, n)
        for s, op in enumerate(hist):
            c = {**case, 'step': s}
            if op[0] == 'open':
                if w.handles or w.extras:
                    continue
                _, reuse, clear = op
                nonempty = w.nonempty()
                sig = {'op': 'open', 'reuse': reuse, 'nonempty': nonempty}
                try:
                    w.open(reuse, clear)
                    ok = True
                except BaseException as e:
                    ok = False
                    err = e
                if nonempty and not reuse:
                    res.count('refusals_checked')
                    if ok:
                        res.violation('nonempty-dir-accepted-without-reuse', c, None, sig=sig)
                        return
                    w.handles = []
                    gc.collect()
                    if not w.nonempty():
                        res.violation('refused-open-destroyed-directory', c, None, sig=sig)
                        return
                    continue
                if not ok:
                    res.violation('open-refused', c, exc_sig(err), sig=sig)
                    return
                opens += 1
                if nonempty:
                    reopened += 1
            elif op[0] == 'get':
                if not w.handles:
                    continue
                _, kind, i, h = op
                before = len(w.calls)
                sig = {'op': 'get', 'access': kind}
                try:
                    got = w.get(kind, i % n, h)
                except BaseException as e:
                    res.violation('access-raised', c, exc_sig(e), sig=sig)
                    return
                res.count('accesses', len(got))
                for want_i, v in got:
                    if v != payload(want_i):
                        res.violation('wrong-value', c, {'index': want_i,
                                                         'got': repr(v)[:120]}, sig=sig)
                        return
                computed = w.calls[before:]
                want_computed = []
                for want_i, _ in got:
                    if want_i not in w.stored and want_i not in want_computed:
                        want_computed.append(want_i)
                if sorted(computed) != sorted(want_computed):
                    kind_ = ('stored-example-recomputed'
                             if set(computed) - set(want_computed) else
                             'value-not-from-upstream')
                    res.violation(kind_, c, {'computed': computed,
                                             'expected_to_compute': want_computed,
                                             'stored': sorted(w.stored)}, sig=sig)
                    return
                res.count('served_from_store', len(got) - len(want_computed))
                w.stored |= {i_ for i_, _ in got}
            elif op[0] == 'copy':
                if not w.handles:
                    continue
                try:
                    w.handles.append(w.handles[op[1] % len(w.handles)].copy())
                except BaseException as e:
                    res.violation('copy-raised', c, exc_sig(e), sig={'op': 'copy'})
                    return
            elif op[0] == 'serialize':
                # serialising a dataset (as a process backend or a checkpoint
                # would) creates no new holder and must not change when the
                # directory is removed
                if not w.handles:
                    continue
                ds_ = w.handles[op[2] % len(w.handles)]
                try:
                    if op[1] == 'dill':
                        import dill
                        dill.dumps(ds_)
                    elif op[1] == 'pickle':
                        import pickle
                        pickle.dumps(ds_)
                    else:
                        ds_.__reduce_ex__(4)
                    res.count('serializations_done')
                except BaseException:
                    res.count('serializations_refused')
                del ds_
            elif op[0] == 'hold':
                # a wrapper (copy, frozen copy, lazy apply, profiling) keeps a
                # copy of the dataset alive: it shares the cache
                if not w.handles:
                    continue
                from ..vias import through
                try:
                    w.extras.append(through(ld, w.handles[op[2] % len(w.handles)], op[1]))
                    res.count('wrappers_holding_the_cache')
                except BaseException as e:
                    res.violation('copy-raised', c, exc_sig(e), sig={'op': 'hold', 'path': op[1]})
                    return
            elif op[0] == 'release':
                if not w.handles and not w.extras:
                    continue
                if w.handles and (op[1] % 2 == 0 or not w.extras):
                    w.handles.pop(op[1] % len(w.handles))
                else:
                    w.extras.pop(op[1] % len(w.extras))
                gc.collect()
                exists = os.path.exists(w.dir)
                last = not w.handles and not w.extras
                sig = {'op': 'release', 'last': last, 'clear': w.clear}
                res.count('release_checks')
                if not last:
                    if not exists:
                        res.violation('directory-removed-while-shared', c, None, sig=sig)
                        return
                elif w.clear:
                    if exists:
                        res.violation('directory-kept-despite-clear', c, None, sig=sig)
                        return
                    w.stored = set()
                else:
                    if not exists:
                        res.violation('directory-removed-despite-clear-false', c, None, sig=sig)
                        return
        w.handles = []
        w.extras = []
        gc.collect()
    finally:
        gc.collect()
        shutil.rmtree(tmp, ignore_errors=True)
    res.case(('life', n, tuple(hist)), reopened > 0)


def check_release_after_errors(ld, res):
    """Examples behind the disk cache raise (FilterException under catch /
    a catching prefetch, other exceptions caught by the caller): when the last
    dataset is released the directory goes away at once if clear=True (and
    stays otherwise) - judged with the cycle collector switched off, i.e. the
    release itself has to do it, not a later garbage collection."""
    FE = ld.core.FilterException

    class Boom(Exception):
        pass
    scenarios = {
        'catch-iterated': lambda d: list(d.catch()),
        'try-index': lambda d: [_try(lambda: d[i]) for i in range(6)],
        'try-key': lambda d: [_try(lambda: d[f'k{i}']) for i in range(6)],
        'catching-prefetch': lambda d: list(d.prefetch(2, 2, 't', catch_filter_exception=True)),
        'catching-prefetch1': lambda d: list(d.prefetch(1, 2, catch_filter_exception=True)),
        'iteration-aborted-by-error': lambda d: _try(lambda: list(d)),
        'items-under-catch': lambda d: list(d.catch().items()),
        'no-error': lambda d: [d[3], d['k5']],
    }
    for exc, ids in ((FE, (1, 4)), (FE, (0,)), (Boom, (2,)), (FE, ())):
        for sname, use in scenarios.items():
            for clear in (True, False):
                if exc is Boom and 'catch' in sname:
                    continue
                tmp = tempfile.mkdtemp(prefix='verif_c11e_')
                cdir = os.path.join(tmp, 'cache')
                case = {'release_after_errors': sname, 'raising_ids': list(ids),
                        'exception': exc.__name__, 'clear': clear}
                res.case(('release-err', sname, exc.__name__, ids, clear), True)

                def m(x, exc=exc, ids=ids):
                    if x in ids:
                        raise exc(x)
                    return payload(x)
                gc.collect()
                gc.disable()
                try:
                    ds = ld.new({f'k{i}': i for i in range(6)}).map(m).diskcache(
                        cache_dir=cdir, clear=clear)
                    try:
                        use(ds)
                    except BaseException as e:
                        res.violation('access-raised', case, exc_sig(e),
                                      sig={'op': 'release-after-errors'})
                        continue
                    del ds
                    exists = os.path.exists(cdir)
                finally:
                    gc.enable()
                    gc.collect()
                    shutil.rmtree(tmp, ignore_errors=True)
                res.count('releases_after_errors_checked')
                if clear and exists:
                    res.violation('directory-kept-despite-clear', case,
                                  {'cycle_collector': 'off during the release'},
                                  sig={'op': 'release', 'last': True, 'clear': True,
                                       'after_errors': True})
                elif not clear and not exists:
                    res.violation('directory-removed-despite-clear-false', case, None,
                                  sig={'op': 'release', 'last': True, 'clear': False,
                                       'after_errors': True})


def _try(f):
    try:
        return f()
    except BaseException:
        return None


GETS = [('get', k, i, h) for k in ('idx', 'neg', 'key', 'iter', 'slice', 'items',
                                    'iter-consume', 'items-consume', 'iter-nested')
        for i in range(3) for h in (0, 1)]


def scripted_histories():
    """Every reuse x clear combination for the first and second open, with a
    partial fill, a copy that outlives the original, and a reopen."""
    for r1, c1, r2, c2 in itertools.product((False, True), repeat=4):
        for fill in ((), (('get', 'idx', 1, 0),), (('get', 'iter', 1, 0), ('get', 'key', 2, 0)),
                     (('get', 'iter-consume', 2, 0),), (('get', 'items-consume', 1, 0),),
                     (('get', 'iter-nested', 2, 0),)):
            for copy_first in (False, True):
                h = [('open', r1, c1)] + list(fill)
                if copy_first:
                    h += [('copy', 0), ('release', 0), ('get', 'neg', 0, 0)]
                if copy_first and r1:
                    h += [('serialize', ('dill', 'pickle', 'reduce')[len(fill)], 0)]
                if not copy_first and fill:
                    h += [('hold', ('lazy-apply', 'profiling')[len(fill) - 1], 0),
                          ('release', 0), ('release', 1)]
                h += [('release', 0), ('open', r2, c2), ('get', 'iter', 2, 0),
                      ('get', 'idx', 1, 0), ('release', 0), ('open', True, True),
                      ('get', 'slice', 0, 0), ('release', 0)]
                yield tuple(h)


def random_history(rng):
    h = [('open', rng.random() < 0.5, rng.random() < 0.5)]
    for _ in range(rng.choice((12, 15))):
        r = rng.random()
        if r < 0.5:
            h.append(rng.choice(GETS))
        elif r < 0.58:
            h.append(('copy', rng.randrange(3)))
        elif r < 0.62:
            h.append(('serialize', rng.choice(('dill', 'pickle', 'reduce')), rng.randrange(3)))
        elif r < 0.66:
            from ..vias import COPYING
            h.append(('hold', rng.choice(COPYING), rng.randrange(3)))
        elif r < 0.82:
            h.append(('release', rng.randrange(3)))
        else:
            h.append(('open', rng.random() < 0.6, rng.random() < 0.5))
    return tuple(h)


# -------------------------------------------------------------------- crash
def child(args, **kw):
    env = dict(os.environ)
    env['PYTHONPATH'] = f'{REPO}:{HOME}'
    return subprocess.Popen([PYTHON, '-W', 'ignore', '-m', 'vlib.c11_child'] + args,
                            cwd=str(HOME), env=env, stdout=subprocess.PIPE,
                            stderr=subprocess.PIPE, text=True, **kw)


def crash_case(n, kill, res, fill_time=None):
    """kill = ('ack', k) or ('time', fraction_of_fill_time)."""
    case = {'n': n, 'kill': list(kill)}
    tmp = tempfile.mkdtemp(prefix='verif_c11k_')
    d = os.path.join(tmp, 'cache')
    sig = {'op': 'crash', 'kill': kill[0]}
    try:
        p = child([d, str(n), 'fill'])
        acked = []
        try:
            line = p.stdout.readline()
            if not line.startswith('ready'):
                res.inconclusive_because('fill child did not get ready: '
                                         + p.stderr.read()[-300:])
                p.kill()
                return
            if kill[0] == 'ack':
                while len(acked) < kill[1]:
                    line = p.stdout.readline()
                    if line.startswith('ack'):
                        acked.append(int(line.split()[1]))
                    elif not line:
                        break
                os.kill(p.pid, signal.SIGKILL)
            else:
                time.sleep(kill[1] * fill_time)
                os.kill(p.pid, signal.SIGKILL)
                rest = p.stdout.read()
                acked = [int(l.split()[1]) for l in rest.splitlines()
                         if l.startswith('ack')]
        finally:
            p.kill()
            p.wait()
        r = child([d, str(n), 'read'])
        try:
            out, err = r.communicate(timeout=300)
        except subprocess.TimeoutExpired:
            r.kill()
            res.inconclusive_because(f'read child timed out after kill {kill}')
            return
        line = [l for l in out.splitlines() if l.startswith('RESULT')]
        if not line:
            res.violation('reopen-after-kill-failed', case, err[-400:], sig=sig)
            res.case(('crash', n, kill), True)
            return
        rep = json.loads(line[0][7:])
        stored_served = [i for i in range(n) if i not in rep['calls']]
        res.case(('crash', n, kill), len(stored_served) > 0)
        res.count('crash_points')
        res.count('examples_served_from_store_after_kill', len(stored_served))
        res.maximum('max_acked_at_kill', len(acked))
        res.seen('acked_counts_at_kill', len(acked))
        if len(stored_served) > len(acked):
            res.count('kills_inside_or_after_an_unacknowledged_store')
        if not rep['ok']:
            res.violation('corrupt-or-misplaced-after-kill', case, rep, sig=sig)
            return
        lost = [i for i in acked if i in rep['calls']]
        if lost:
            res.violation('acknowledged-example-recomputed-after-kill', case,
                          {'lost': lost, 'acked': acked}, sig=sig)
    finally:
        shutil.rmtree(tmp, ignore_errors=True)


def clear_crash_case(n, frac, res, clear_time):
    """Kill the process while it removes the directory (clear=True, last holder
    released); a reader then opens whatever is left with reuse=True: every value
    it serves must be right (recomputing is fine, corruption is not)."""
    case = {'n': n, 'kill': ['during-clear', frac]}
    tmp = tempfile.mkdtemp(prefix='verif_c11c_')
    d = os.path.join(tmp, 'cache')
    sig = {'op': 'crash', 'kill': 'during-clear'}
    try:
        p = child([d, str(n), 'fill-then-clear'])
        try:
            line = p.stdout.readline()
            while line and not line.startswith('clearing'):
                line = p.stdout.readline()
            time.sleep(frac * clear_time)
            os.kill(p.pid, signal.SIGKILL)
        finally:
            p.kill()
            p.wait()
        left = sum(len(fs) for _, _, fs in os.walk(d)) if os.path.isdir(d) else 0
        res.seen('files_left_after_kill_during_clear', min(left, 9) if left < 9 else 9)
        if left:
            res.count('kills_that_left_a_partial_directory')
        r = child([d, str(n), 'read'])
        try:
            out, err = r.communicate(timeout=300)
        except subprocess.TimeoutExpired:
            r.kill()
            res.inconclusive_because('read child timed out after kill during clear')
            return
        line = [l for l in out.splitlines() if l.startswith('RESULT')]
        res.case(('clear-crash', n, frac), True)
        res.count('crash_points')
        res.count('clear_crash_points')
        if not line:
            # the library may refuse a half-removed directory loudly; a crash
            # with a traceback is loud, silent corruption would not be
            res.count('reopen_after_partial_clear_refused')
            res.seen('reopen_after_partial_clear_errors', (err or '').strip().splitlines()[-1][:80]
                     if err.strip() else 'no output')
            return
        rep = json.loads(line[0][7:])
        if not rep['ok']:
            res.violation('corrupt-or-misplaced-after-kill', case, rep, sig=sig)
    finally:
        shutil.rmtree(tmp, ignore_errors=True)


def measure_clear(n):
    tmp = tempfile.mkdtemp(prefix='verif_c11m_')
    try:
        p = child([os.path.join(tmp, 'cache'), str(n), 'fill-then-clear'])
        line = p.stdout.readline()
        while line and not line.startswith('clearing'):
            line = p.stdout.readline()
        t0 = time.monotonic()
        while line and not line.startswith('cleared'):
            line = p.stdout.readline()
        dt = time.monotonic() - t0
        p.kill()
        p.wait()
        return max(dt, 0.002)
    finally:
        shutil.rmtree(tmp, ignore_errors=True)


def measure_fill(n):
    tmp = tempfile.mkdtemp(prefix='verif_c11m_')
    try:
        p = child([os.path.join(tmp, 'cache'), str(n), 'fill'])
        line = p.stdout.readline()
        t0 = time.monotonic()
        while line and not line.startswith('done'):
            line = p.stdout.readline()
        dt = time.monotonic() - t0
        p.kill()
        p.wait()
        return dt
    finally:
        shutil.rmtree(tmp, ignore_errors=True)


def shards(tier, seed):
    lim = LIMITS[tier]
    out = []
    for j in range(6):
        out.append({'name': f'life{j}', 'what': 'life', 'mod': 6, 'rem': j, **lim})
    for j in range(10):
        out.append({'name': f'crash{j}', 'what': 'crash', 'mod': 10, 'rem': j, **lim})
    return out


def run_shard(spec, res):
    ld = import_lazy_dataset()
    rng = rng_for(spec['seed'], PROPERTY, spec['name'])
    free = shutil.disk_usage(tempfile.gettempdir()).free
    if free < 6 * 1024 ** 3:
        res.inconclusive_because('less than 6 GB free in the scratch location')
        return
    if spec['what'] == 'life':
        hs = list(scripted_histories())
        for j, h in enumerate(hs):
            if j % spec['mod'] == spec['rem']:
                run_life(ld, 3, h, res)
        for _ in range(spec['nlife'] // spec['mod']):
            run_life(ld, 3, random_history(rng), res)
        if spec['rem'] == 0:
            check_release_after_errors(ld, res)
        # a few hundred examples (beyond 2^8 stores through one object):
        # filled once, then every later pass - same object, a copy, a reopened
        # directory - is served from the store
        big = [(129, 0), (256, 1), (257, 2), (600, 3)]
        for n, r_ in big:
            if r_ % spec['mod'] != spec['rem']:
                continue
            for first in (('get', 'iter', n - 1, 0), ('get', 'items', 0, 0),
                          ('get', 'iter-consume', n - 1, 0)):
                h = (('open', False, False), first, ('get', 'iter', n - 1, 0), ('copy', 0),
                     ('get', 'slice', 0, 1), ('get', 'neg', n - 1, 0), ('release', 0),
                     ('release', 0), ('open', True, True), ('get', 'iter', n - 1, 0),
                     ('get', 'key', n - 1, 0), ('release', 0))
                run_life(ld, n, h, res)
                res.count('large_lifecycles')
        res.sample({'n': 3, 'history': [list(op) for op in hs[5]],
                    'op_format': 'open(reuse, clear) | get(kind, index, handle) | copy(handle) | release(handle)'})
    else:
        n = spec['crash_n']
        pts = [('ack', k) for k in range(0, n + 1)]
        if n > 40:
            pts = [('ack', k) for k in sorted(set(range(0, n + 1, 7)) | {1, 2, 3, n})]
        mine = [pt for j, pt in enumerate(pts) if j % spec['mod'] == spec['rem']]
        for pt in mine:
            crash_case(n, pt, res)
        rn = spec['rand_n']
        ft = measure_fill(rn)
        res.maximum('fill_time_ms', int(ft * 1000))
        for _ in range(spec['nrandkill'] // spec['mod']):
            crash_case(rn, ('time', round(rng.uniform(0.0, 1.05), 4)), res, fill_time=ft)
        if spec['rem'] < 4:
            ct = measure_clear(rn)
            res.maximum('clear_time_ms', int(ct * 1000))
            for _ in range(max(2, spec['nrandkill'] // 12)):
                clear_crash_case(rn, round(rng.uniform(0.0, 1.0), 4), res, ct)
        res.sample({'n': n, 'kill': ['ack', 3],
                    'meaning': 'SIGKILL right after the 3rd acknowledged store, then reopen with reuse=True in a fresh process'})


def finalize(res, tier):
    for k in ('accesses', 'release_checks', 'refusals_checked', 'served_from_store',
              'crash_points', 'examples_served_from_store_after_kill'):
        if res.counters.get(k, 0) == 0:
            res.inconclusive_because(f'monitor {k} never evaluated')
    return {}


def replay(case, res):
    ld = import_lazy_dataset()
    if 'kill' in case:
        ft = measure_fill(case['n']) if case['kill'][0] == 'time' else None
        crash_case(case['n'], tuple(case['kill']), res, fill_time=ft)
    else:
        run_life(ld, case['n'], tuple(tuple(op) for op in case['history']), res)
