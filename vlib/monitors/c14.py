"""C14 - exception-based filtering drops exactly the failing examples.

Fault enumeration: all 2^n subsets of failing positions x exception-type plans x
where in the upstream chain the exception originates x value / key iteration.
Oracle: the model "examples whose evaluation does not raise a listed type, in
order; an unlisted exception propagates unchanged at its position, after the
surviving examples that precede it".  Lazy filter, eager filter and raising
FilterException under catch must agree for one predicate.
"""
import itertools

from ..common import import_lazy_dataset, exc_sig
from ..vias import COPYING, through

PROPERTY = 'C14'
LEVEL = 'fault_enumeration'
RULE = ('every subset of failing positions of n <= N examples (N=5 quick, 7 '
        'thorough) x type plan x raising site x value/key iteration; non-trivial '
        'iff at least one position fails and at least one survives; distinct by '
        '(n, subset, plan, site, with_key)')
ASSUMPTIONS = ['the raising function is deterministic in the example id']
SHARD_TIMEOUT = {'quick': 300, 'thorough': 3000}
LIMITS = {'quick': dict(N=5, NPATH=3), 'thorough': dict(N=7, NPATH=5)}


class E1(Exception):
    pass


class E2(Exception):
    pass


class Sub1(E1):
    pass


class Foreign(Exception):
    pass


class ForeignBase(BaseException):
    pass


def g(x):
    return ('g', x)


def sid(t):
    while not isinstance(t, int):
        t = t[1] if (isinstance(t, tuple) and len(t) == 2 and isinstance(t[0], str)) else t[0]
    return t


# plan -> (exceptions argument for catch (None = default), type raised at a
#          failing position as a function of the position index in the subset)
# two different exception classes with the same __name__ (the ParseError of
# two parser modules; csv.Error and binascii.Error)
SameName1 = type('ParseError', (Exception,), {'__module__': 'parser_one'})
SameName2 = type('ParseError', (Exception,), {'__module__': 'parser_two'})


def plans(ld):
    FE = ld.core.FilterException
    return {
        'same-name-both-listed': ((SameName1, SameName2),
                                  lambda j: (SameName1, SameName2)[j % 2]),
        'same-name-both-listed-as-list': ([SameName2, SameName1, E1],
                                          lambda j: (SameName1, SameName2, E1)[j % 3]),
        'default': (None, lambda j: FE),
        'single': (E1, lambda j: E1),
        'tuple': ((E1, E2), lambda j: (E1, E2)[j % 2]),
        # documented: "one exception or a list of exceptions"
        'list-of-types': ([E1, E2], lambda j: (E1, E2)[j % 2]),
        'subclass': (E1, lambda j: Sub1),
        'superclass-listed': (Exception, lambda j: (E1, E2, KeyError)[j % 3]),
        'filterexception-listed-explicitly': ((FE, E1), lambda j: (FE, E1)[j % 2]),
        # selections that select nothing / something else: every raised
        # exception is "of another type" and must propagate
        'empty-tuple-selects-nothing': ((), lambda j: (FE, E1)[j % 2]),
        'other-type-listed': (E2, lambda j: (FE, E1)[j % 2]),
        'same-name-other-listed': (SameName1, lambda j: SameName2),
        'subclass-listed-superclass-raised': (Sub1, lambda j: E1),
        # exception types that stages use for their own control flow (end of
        # input, missing key, missing capability): raised by USER code they
        # are ordinary exceptions - dropped when listed, propagated otherwise
        'indexerror-listed': (IndexError, lambda j: IndexError),
        'lookuperror-listed': (LookupError, lambda j: (IndexError, KeyError)[j % 2]),
        'control-types-listed': ((AssertionError, NotImplementedError, TypeError, ValueError),
                                 lambda j: (AssertionError, NotImplementedError, TypeError,
                                            ValueError)[j % 4]),
        'indexerror-unlisted': (E2, lambda j: IndexError),
        'keyerror-unlisted': (E2, lambda j: KeyError),
        'control-types-unlisted': (E2, lambda j: (AssertionError, NotImplementedError,
                                                  TypeError, AttributeError)[j % 4]),
    }


UNSELECTED_PLANS = ('same-name-other-listed', 'empty-tuple-selects-nothing', 'other-type-listed',
                    'subclass-listed-superclass-raised', 'indexerror-unlisted',
                    'keyerror-unlisted', 'control-types-unlisted')


SITES = ('map', 'map-map', 'under-slice', 'concat-part', 'concat-part-first', 'in-batch',
         'in-batch3', 'after-items', 'filterfn')


class Raiser:
    """Raises `types(j)` for the j-th failing id; records the raised objects."""

    def __init__(self, failing, types, foreign_at=None, foreign_type=Foreign):
        self.failing = sorted(failing)
        self.types = types
        self.foreign_at = foreign_at
        self.foreign_type = foreign_type
        self.raised = []

    def __call__(self, x):
        i = sid(x)
        if i == self.foreign_at:
            e = self.foreign_type(('foreign', i))
            self.raised.append(e)
            raise e
        if i in self.failing:
            e = self.types(self.failing.index(i))(i)
            self.raised.append(e)
            raise e
        return ('r', x)


def build(ld, n, site, raiser):
    """Returns (dataset before catch, model list of (key|None, id, value-or-None))
    where value None means 'evaluation raises'."""
    keys = [f'k{i}' for i in range(n)]
    src = ld.new({k: i for i, k in enumerate(keys)})

    def val(i):
        return ('r', i)

    if site == 'map':
        ds = src.map(raiser)
        model = [(keys[i], [i], val(i)) for i in range(n)]
    elif site == 'map-map':
        ds = src.map(raiser).map(g)
        model = [(keys[i], [i], ('g', val(i))) for i in range(n)]
    elif site == 'under-slice':
        ds = src.map(raiser)[::-1]
        model = [(keys[i], [i], val(i)) for i in reversed(range(n))]
    elif site == 'concat-part':
        other = ld.new({f'q{i}': 100 + i for i in range(2)})
        ds = other.concatenate(src.map(raiser))
        model = [(f'q{i}', [], 100 + i) for i in range(2)] + \
                [(keys[i], [i], val(i)) for i in range(n)]
    elif site == 'concat-part-first':
        # the raising part is followed by another part
        other = ld.new({f'q{i}': 100 + i for i in range(2)})
        ds = src.map(raiser).concatenate(other)
        model = [(keys[i], [i], val(i)) for i in range(n)] + \
                [(f'q{i}', [], 100 + i) for i in range(2)]
    elif site in ('in-batch', 'in-batch3'):
        bs = 2 if site == 'in-batch' else 3
        ds = src.map(raiser).batch(bs)
        model = []
        for b in range(0, n, bs):
            ids = list(range(b, min(b + bs, n)))
            model.append((None, ids, [val(i) for i in ids]))
    elif site == 'after-items':
        ds = src.items().map(lambda kv: (kv[0], raiser(kv[1])))
        model = [(keys[i], [i], (keys[i], val(i))) for i in range(n)]
    elif site == 'filterfn':
        # the exception originates in a filter predicate evaluated by index
        def pred(x):
            raiser(x)
            return True
        ds = src.map(lambda x: ('r', x)).filter(pred, lazy=True)
        return ds, None
    else:
        raise ValueError(site)
    return ds, model


def consume(it):
    out = []
    try:
        for x in it:
            out.append(x)
    except BaseException as e:
        return out, e
    return out, None


def check(ld, n, failing, plan, site, with_key, foreign_at, res, foreign_type=Foreign,
          warn=False, path='direct'):
    """`path`: how the catching dataset is consumed (vlib/vias.py) - the
    selection of exception types is a parameter of the stage and has to hold
    for its copies, below a lazy apply and inside the profiling wrapper too."""
    case = {'n': n, 'failing': sorted(failing), 'plan': plan, 'site': site,
            'with_key': with_key, 'foreign_at': foreign_at,
            'foreign_type': foreign_type.__name__, 'warn': warn, 'path': path}
    exceptions, types = plans(ld)[plan]
    raiser = Raiser(failing, types, foreign_at, foreign_type)
    ds, model = build(ld, n, site, raiser)
    if model is None or (with_key and site.startswith('in-batch')):
        return
    bad = set(failing)
    unselected = plan in UNSELECTED_PLANS
    if unselected and foreign_at is not None:
        return
    nontrivial = bool(bad) and len(bad) < n
    res.case((n, tuple(sorted(failing)), plan, site, with_key, foreign_at,
              foreign_type.__name__, warn, path), nontrivial)
    sig = {'site': site, 'plan': plan, 'with_key': with_key, 'warn': warn}
    if path != 'direct':
        sig['path'] = path
    try:
        if warn:
            c = ds.catch(warn=True) if exceptions is None else \
                (ds.catch(exceptions, True) if n % 2 else
                 ds.catch(exceptions=exceptions, warn=True))
        else:
            c = ds.catch() if exceptions is None else \
                (ds.catch(exceptions) if n % 2 else ds.catch(exceptions=exceptions))
        c = through(ld, c, path)
        it = iter(c.items()) if with_key else iter(c)
    except BaseException as e:
        res.violation('catch-build-raised', case, exc_sig(e), sig=sig)
        return
    got, err = consume(it)
    if path != 'direct' and with_key and type(err).__name__ == '_ItemsNotDefined':
        res.count('items_not_offered_on_this_path')
        return
    if path != 'direct':
        res.count('catch_iterations_through_copies')
    # expected
    want = []
    want_err = False
    for k, ids, v in model:
        # the members of one example are evaluated in order; the first one
        # that raises decides what happens to the example
        first = next((i for i in ids if i == foreign_at or i in bad), None)
        if first is not None and (first == foreign_at or unselected):
            want_err = True
            want_exc_pos = first
            break
        if first is not None:
            continue
        want.append((k, v) if with_key else v)
    res.count('catch_iterations')
    if got != want:
        res.violation('catch-output-differs', case, {'got': got, 'want': want,
                                                     'raised': exc_sig(err) if err else None}, sig=sig)
        return
    if want_err and unselected:
        res.count('foreign_propagations_checked')
        if err is None:
            res.violation('unlisted-exception-swallowed', case, {'got': got}, sig=sig)
        elif err.args != (want_exc_pos,) or not any(err is r for r in raiser.raised):
            res.violation('unlisted-exception-changed', case, exc_sig(err), sig=sig)
    elif want_err:
        res.count('foreign_propagations_checked')
        if err is None:
            res.violation('unlisted-exception-swallowed', case, {'got': got}, sig=sig)
        elif type(err) is not foreign_type or err.args != (('foreign', foreign_at),):
            res.violation('unlisted-exception-changed', case, exc_sig(err), sig=sig)
        elif not any(err is r for r in raiser.raised):
            res.violation('unlisted-exception-not-same-object', case, exc_sig(err), sig=sig)
    elif err is not None:
        res.violation('listed-exception-propagated', case, exc_sig(err), sig=sig)
    # second iteration is the same
    if foreign_at is None and not (unselected and bad):
        raiser.raised.clear()
        again, err2 = consume(iter(c.items()) if with_key else iter(c))
        if again != want or err2 is not None:
            res.violation('catch-second-iteration-differs', case,
                          {'again': again, 'want': want}, sig=sig)


def check_epochs(ld, n, failing, plan, with_key, res, where='below'):
    """Several epochs (and an abandoned one) over ONE catching dataset whose
    upstream order changes per epoch (seeded reshuffle): in every epoch exactly
    the examples that do not raise are delivered - as a multiset, the order is
    the shuffle's.  `where`: the reshuffle sits below or above the raising map."""
    import numpy as np
    case = {'n': n, 'failing': sorted(failing), 'plan': plan, 'with_key': with_key,
            'site': 'reshuffled-upstream', 'reshuffle': where}
    exceptions, types = plans(ld)[plan]
    raiser = Raiser(failing, types)
    src = ld.new({f'k{i}': i for i in range(n)})
    if where == 'below':
        ds = src.shuffle(True, rng=np.random.RandomState(n)).map(raiser)
    else:
        ds = src.map(raiser).shuffle(True, rng=np.random.RandomState(n))
    res.case(('epochs', n, tuple(sorted(failing)), plan, with_key, where),
             bool(failing) and len(failing) < n)
    sig = {'site': 'reshuffled-upstream', 'plan': plan, 'with_key': with_key}
    want = sorted((f'k{i}', ('r', i)) if with_key else ('r', i)
                  for i in range(n) if i not in failing)
    try:
        c = ds.catch() if exceptions is None else ds.catch(exceptions)
        src_ = (lambda: c.items()) if with_key else (lambda: c)
        outs = []
        for ep in range(4):
            if ep == 2:
                it = iter(src_())          # an abandoned epoch in between
                next(it, None)
                del it
            outs.append(sorted(src_()))
    except BaseException as e:
        res.violation('listed-exception-propagated', case, exc_sig(e), sig=sig)
        return
    # two iterations of the one catching dataset in flight (each works on its
    # own frozen order): start one, take an example, run a second one to its
    # end, finish the first
    try:
        it1 = iter(src_())
        first = [x for x in [next(it1, None)] if x is not None]
        second = list(src_())
        first += list(it1)
        outs += [sorted(first), sorted(second)]
    except BaseException as e:
        res.violation('listed-exception-propagated', {**case, 'two_iterators': True},
                      exc_sig(e), sig=sig)
        return
    res.count('catch_epochs_over_reshuffled_upstream', len(outs))
    for ep, got in enumerate(outs):
        if got != want:
            res.violation('catch-output-differs', {**case, 'epoch': ep},
                          {'got': got, 'want': want}, sig=sig)
            return


CONTROL_TYPES = (StopIteration, IndexError, KeyError, AssertionError, NotImplementedError,
                 TypeError, AttributeError, LookupError, ValueError)


def slots(ld, f, pred):
    """Every place that accepts a user function, and the stages that sit on
    top of a raising map: name -> (pipeline builder, catch on top possible)."""
    src = lambda: ld.new({f'k{i}': i for i in range(6)})      # noqa: E731
    dmap = lambda x: {'v': x}                                   # noqa: E731
    return {
        'map': (lambda: src().map(f), True),
        'map.items': (lambda: src().map(f).items(), True),
        'filter-lazy': (lambda: src().filter(pred), False),
        'filter-lazy.items': (lambda: src().filter(pred).items(), False),
        'filter-eager': (lambda: src().filter(pred, lazy=False), True),
        'batch_map': (lambda: src().batch(2).batch_map(f), True),
        'apply-eager': (lambda: src().apply(lambda d: d.map(f)), True),
        'apply-lazy': (lambda: src().apply(lambda d: d.map(f), lazy=True), False),
        'sort-key': (lambda: src().sort(lambda x: f(x)), True),
        'groupby-fn': (lambda: [e for g in src().groupby(lambda x: f(x)).values()
                                for e in g], False),
        'bucket-len_key': (lambda: src().map(dmap).batch_dynamic_time_series_bucket(
            2, lambda e: f(e['v']) + 1, 0.9), False),
        'bucket-sort_key': (lambda: src().map(dmap).batch_dynamic_time_series_bucket(
            2, lambda e: 1, 0.5, sort_key=lambda e: f(e['v'])), False),
        'map.batch': (lambda: src().map(f).batch(2), True),
        'map.batch3': (lambda: src().map(f).batch(3), True),
        'map.batch.unbatch': (lambda: src().map(f).batch(2).unbatch(), False),
        'map.key_zip': (lambda: src().map(f).key_zip(src()), True),
        'map.zip': (lambda: src().map(f).zip(src()), True),
        'map.intersperse': (lambda: src().map(f).intersperse(src()), True),
        'map.concatenate': (lambda: src().map(f).concatenate(ld.new({'q': 9})), True),
        'map.concatenate.items': (lambda: src().map(f).concatenate(
            ld.new({'q': 9})).items(), True),
        'map.tile': (lambda: src().map(f).tile(2), True),
        'map.tile-shuffle': (lambda: src().map(f).tile(2, shuffle=True), True),
        'map.shuffle': (lambda: src().map(f).shuffle(), True),
        'map.reshuffle': (lambda: src().map(f).shuffle(True), False),
        'map.local-shuffle': (lambda: src().map(f).shuffle(True, buffer_size=2), False),
        'map.slice': (lambda: src().map(f)[::-1], True),
        'map.cache': (lambda: src().map(f).cache(), True),
        'map.eager-cache': (lambda: src().map(f).cache(lazy=False), True),
        'map.diskcache': (lambda: src().map(f).diskcache(), True),
        'new(map)': (lambda: ld.new(src().map(f)), True),
        'map.prefetch1': (lambda: src().map(f).prefetch(1, 2), False),
        'map.prefetch-pool': (lambda: src().map(f).prefetch(2, 2, 't'), False),
        'map.batch.prefetch-pool': (lambda: src().map(f).batch(2).prefetch(2, 2, 't'), False),
        'parallel-map': (lambda: src().map(f, num_workers=2, buffer_size=2), True),
        'map.cycle': (lambda: (x for _, x in zip(range(9), src().map(f).cycle())), False),
        'map.profiling': (lambda: ld.core.ProfilingDataset(src().map(f)), False),
        'map.split': (lambda: src().map(f).split(2)[1], True),
        'map.random_choice': (lambda: src().map(f).random_choice(6, replace=False), True),
    }


def check_slot(ld, slot, exc_type, with_catch, res):
    """A user function raises an exception of a type that stages also use for
    their own control flow; nothing catches it (or an unrelated type is
    caught): the consumer gets that exception - never a regular end, a shorter
    result, or a wrong example."""
    case = {'slot': slot, 'exception': exc_type.__name__, 'catch_unrelated_on_top': with_catch,
            'site': 'user-function-slots'}
    raised = []

    def f(x):
        if x == 3:
            e = exc_type(('user', 3))
            raised.append(e)
            raise e
        return x

    def pred(x):
        f(x)
        return True
    builder, catchable = slots(ld, f, pred)[slot]
    if with_catch and not catchable:
        return
    res.case(('slot', slot, exc_type.__name__, with_catch), True)
    sig = {'site': 'user-function-slots', 'slot': slot.split('.')[-1]}
    got = []
    try:
        d = builder()
        if with_catch:
            d = d.catch(E2)
        for x in d:
            got.append(x)
    except BaseException as e:
        res.count('user_errors_in_function_slots_reported')
        chain = [e, e.__cause__, e.__context__]
        if not any(c is r for c in chain for r in raised):
            res.violation('unlisted-exception-changed', case,
                          {'surfaced': exc_sig(e), 'raised_by_user_function': len(raised)},
                          sig=sig)
        return
    res.violation('unlisted-exception-swallowed', case,
                  {'delivered': repr(got)[:300], 'user_function_raised': len(raised)}, sig=sig)


def check_exception_values(ld, res):
    """Examples that ARE exception objects of a listed type (stored, or
    returned by a function that does not raise them) are ordinary examples:
    nothing raised, nothing dropped."""
    FE = ld.core.FilterException
    for plan, (exceptions, _) in plans(ld).items():
        for origin in ('stored', 'returned-by-map'):
            for with_key in (False, True):
                case = {'site': 'exception-objects-as-examples', 'plan': plan,
                        'origin': origin, 'with_key': with_key}
                res.case(('excvals', plan, origin, with_key), True)
                vals = [1, E1('data'), FE('data'), Sub1('data'), KeyError('data'), 6,
                        IndexError('data'), E2('data')]
                keys = [f'k{i}' for i in range(len(vals))]
                try:
                    if origin == 'stored':
                        ds = ld.new(dict(zip(keys, vals)), immutable_warranty='copy')
                    else:
                        ds = ld.new(dict(zip(keys, range(len(vals))))).map(lambda i: vals[i])
                    c = ds.catch() if exceptions is None else ds.catch(exceptions)
                    got = list(c.items()) if with_key else list(c)
                except BaseException as e:
                    res.violation('listed-exception-propagated', case, exc_sig(e),
                                  sig={'site': 'exception-objects-as-examples'})
                    continue
                res.count('exception_objects_as_examples_checked')
                flat = [v for _, v in got] if with_key else got
                ok = len(flat) == len(vals) and all(
                    type(a) is type(b) and (a == b or getattr(a, 'args', 0) == getattr(b, 'args', 1))
                    for a, b in zip(flat, vals))
                if not ok or (with_key and [k for k, _ in got] != keys):
                    res.violation('catch-output-differs', case,
                                  {'got': repr(got)[:300], 'want': repr(vals)},
                                  sig={'site': 'exception-objects-as-examples'})


def check_equivalence(ld, n, failing, res, style='bool'):
    """lazy filter == eager filter == FilterException under catch; the
    predicate may return any object with the right truth value."""
    from ..terms import truthy
    case = {'n': n, 'failing': sorted(failing), 'check': 'three-formulations',
            'predicate_returns': style}
    bad = set(failing)
    res.case(('equiv', n, tuple(sorted(failing)), style), bool(bad) and len(bad) < n)
    FE = ld.core.FilterException
    src = ld.new({f'k{i}': i for i in range(n)})

    def keep(x):
        return truthy(sid(x) not in bad, style, sid(x))

    def raise_unless(x):
        if not keep(x):
            raise FE(x)
        return x

    obs = {}
    for name, mk in (('lazy', lambda: src.filter(keep)),
                     ('eager', lambda: src.filter(keep, False) if n % 2
                      else src.filter(filter_fn=keep, lazy=False)),
                     ('catch', lambda: src.map(raise_unless).catch())):
        try:
            d = mk()
            obs[name] = (list(d), list(d.items()))
        except BaseException as e:
            obs[name] = ('raised', exc_sig(e))
    res.count('equivalence_checks')
    want = ([i for i in range(n) if i not in bad],
            [(f'k{i}', i) for i in range(n) if i not in bad])
    for name, o in obs.items():
        if o != want:
            res.violation('filter-formulations-disagree', {**case, 'which': name},
                          {'obs': repr(obs)[:600], 'want': want},
                          sig={'which': name, 'style': style if style == 'bool' else 'object'})
            return


def subsets(n):
    for r in range(n + 1):
        yield from itertools.combinations(range(n), r)


def shards(tier, seed):
    out = []
    for site in SITES:
        if site == 'filterfn':
            continue
        for wk in (False, True):
            out.append({'name': f'{site}-{"key" if wk else "val"}', 'site': site,
                        'with_key': wk, 'what': 'catch', **LIMITS[tier]})
    out.append({'name': 'equivalence', 'what': 'equiv', **LIMITS[tier]})
    out.append({'name': 'slots', 'what': 'slots', **LIMITS[tier]})
    return out


def run_shard(spec, res):
    ld = import_lazy_dataset()
    N = spec['N']
    if spec['what'] == 'slots':
        check_exception_values(ld, res)
        for slot in slots(ld, None, None):
            for exc_type in CONTROL_TYPES:
                for with_catch in (False, True):
                    check_slot(ld, slot, exc_type, with_catch, res)
        return
    if spec['what'] == 'equiv':
        from ..terms import TRUTH_STYLES
        for n in range(0, N + 2):
            for failing in subsets(n):
                check_equivalence(ld, n, failing, res)
        for n in range(0, N):
            for failing in subsets(n):
                for style in TRUTH_STYLES[1:]:
                    check_equivalence(ld, n, failing, res, style)
        return
    site, wk = spec['site'], spec['with_key']
    for n in range(0, N + 1):
        for failing in subsets(n):
            for plan in plans(ld):
                check(ld, n, failing, plan, site, wk, None, res)
            for plan in ('default', 'tuple'):
                check(ld, n, failing, plan, site, wk, None, res, warn=True)
            # one unlisted exception among the listed ones, at every position
            # that is not itself failing
            for fa in range(n):
                if fa in failing:
                    continue
                for plan in ('single', 'default'):
                    check(ld, n, failing, plan, site, wk, fa, res)
                if len(failing) <= 1:
                    check(ld, n, failing, 'single', site, wk, fa, res,
                          foreign_type=ForeignBase)
                    check(ld, n, failing, 'tuple', site, wk, fa, res,
                          foreign_type=KeyError)
            if site == 'map':
                for plan in ('default', 'tuple'):
                    for where in ('below', 'above'):
                        check_epochs(ld, n, failing, plan, wk, res, where)
            # the same through every consumption path that copies the stage
            if n <= spec.get('NPATH', 3):
                for path in COPYING:
                    for plan in ('single', 'tuple', 'default', 'other-type-listed',
                                 'superclass-listed'):
                        check(ld, n, failing, plan, site, wk, None, res, path=path)
                    for fa in range(n):
                        if fa not in failing:
                            check(ld, n, failing, 'tuple', site, wk, fa, res, path=path)
    res.sample({'n': 4, 'failing': [1, 2], 'plan': 'tuple', 'site': site,
                'with_key': wk, 'foreign_at': 3,
                'meaning': 'ids 1,2 raise E1/E2 (listed), id 3 raises Foreign'})


def finalize(res, tier):
    for k in ('catch_iterations', 'foreign_propagations_checked', 'equivalence_checks',
              'catch_iterations_through_copies'):
        if res.counters.get(k, 0) == 0:
            res.inconclusive_because(f'monitor {k} never evaluated')
    return {'exhaustive': True, 'max_n': LIMITS[tier]['N']}


def replay(case, res):
    ld = import_lazy_dataset()
    if case.get('site') == 'exception-objects-as-examples':
        return check_exception_values(ld, res)
    if case.get('site') == 'user-function-slots':
        check_slot(ld, case['slot'], {t.__name__: t for t in CONTROL_TYPES}[case['exception']],
                   case['catch_unrelated_on_top'], res)
        return
    if case.get('site') == 'reshuffled-upstream':
        check_epochs(ld, case['n'], case['failing'], case['plan'], case['with_key'], res,
                     case.get('reshuffle', 'below'))
        return
    if case.get('check') == 'three-formulations':
        check_equivalence(ld, case['n'], case['failing'], res,
                          case.get('predicate_returns', 'bool'))
        return
    ft = {'Foreign': Foreign, 'ForeignBase': ForeignBase, 'KeyError': KeyError}[
        case.get('foreign_type', 'Foreign')]
    check(ld, case['n'], case['failing'], case['plan'], case['site'],
          case['with_key'], case['foreign_at'], res, foreign_type=ft,
          warn=case.get('warn', False), path=case.get('path', 'direct'))
