"""C01 - iterating a pipeline equals the eager reference semantics, repeatably.

Differential monitor: every pipeline program is built on the real library and
iterated; the value sequence (symbolic terms that spell out which source example
went through which function) is compared with the eager reference interpreter
(vlib/refmodel.py).  Also compared: a second iteration, an iteration after all
other kinds of access, an iteration of copy(), and a full iteration after a
partial one.  A program the reference supports must not be refused.
"""
from .. import progshards, progengine

PROPERTY = 'C01'
LEVEL = 'exploration'
RULE = ('every pipeline program of depth <= D (quick 2, thorough 3) over an '
        'alphabet of 82 parameterised operations and 15 sources, plus random '
        'programs of depth <= 6/8 and random programs over sources of 8-12 '
        'examples; a case is one program; non-trivial iff the reference supports '
        'it, it has >= 1 operation and >= 1 example was compared; distinct by '
        'the program')
ASSUMPTIONS = ['reference interpreter vlib/refmodel.py (cross-checked by C16, which '
               'does not use it)', 'one-time shuffles are scripted through the rng '
               'parameter; tile(shuffle=True) uses numpy\'s legacy seeded stream']
SHARD_TIMEOUT = {'quick': 600, 'thorough': 7000}
ASPECTS = ('iter', 'len', 'copy', 'partial', 'scramble', 'neighbour', 'interleave')


def shards(tier, seed):
    out = progshards.shards(tier, seed, PROPERTY)
    for j in range(4):
        out.append({'name': f'slow{j}', 'what': 'slow', 'part': j})
    for j in range(3):
        out.append({'name': f'odd{j}', 'what': 'odd', 'mod': 3, 'rem': j})
    out.append({'name': 'proc', 'what': 'proc'})
    for j in range(2):
        # pipelines below a pool prefetch under the controlled scheduler, every
        # line of core.py a switch point (machinery of C04)
        out.append({'name': f'schedpipe{j}', 'what': 'schedpipe', 'mod': 2, 'rem': j,
                    'rnd_runs': 16 if tier == 'quick' else 200})
    return out


SLOW_PROGRAMS = [
    [('prefetch1', 1)], [('map', 'f'), ('prefetch1', 2)],
    [('map', 'f'), ('batch', 2, False), ('prefetch1', 1)],
    [('filter', 3), ('prefetch1', 2)],
    [('map', 'f'), ('prefetcht', 2, 2)], [('parmap', 'f', 2, 2)],
    [('map', 'f'), ('prefetcht', 2, 3), ('prefetch1', 1)],
    [('prefetch1', 1), ('map', 'g'), ('prefetch1', 1)],
]


def run_slow(spec, res):
    """A consumer that stalls for more than a second between examples (a
    training step, a checkpoint): iteration must still equal the reference."""
    import time
    from .. import programs
    from ..common import import_lazy_dataset
    ld = import_lazy_dataset()
    for i, ops in enumerate(SLOW_PROGRAMS):
        if i % 4 != spec['part']:
            continue
        for src in (('list', 8, 'pickle'), ('dict', 6, 'pickle')):
            prog = {'src': src, 'ops': list(ops)}
            status, m = programs.classify(prog)
            if status != 'ok':
                continue
            for stall_after in ((1,), (0, 3)):
                ds = programs.build(ld, prog)
                got = []
                for j, x in enumerate(ds):
                    got.append(x)
                    if j in stall_after:
                        time.sleep(1.3)
                res.case(('slow', repr(prog), stall_after), True)
                res.count('slow_consumer_iterations')
                if got != m.values:
                    res.violation('iteration-differs-from-reference',
                                  {'prog': prog, 'consumer_stalls_after': list(stall_after),
                                   'stall_seconds': 1.3},
                                  {'got': got, 'want': m.values},
                                  sig={'last_op': progengine.last_op(prog),
                                       'consumer': 'slow'})


def _ident(x):
    return x


def run_odd_values(spec, res):
    """Examples that are None, falsy or empty (None, 0, False, '', [], (), {},
    np.int64(0), b'', 0.0) through every stage that only forwards examples,
    alone and in pairs: the same objects (type and value) in the same order,
    twice.  A stage that uses None / a falsy value as its own "nothing" marker
    would lose or stop at such an example."""
    import itertools
    import numpy as np
    from ..common import import_lazy_dataset, exc_sig
    ld = import_lazy_dataset()
    vals = [None, 0, False, '', [], (), {}, np.int64(0), b'', 0.0, [None], 'x', None, 0,
            # values that look like something the machinery passes around: an
            # exception object, a (key, example) pair, a 1-tuple, a class
            ValueError('v'), StopIteration(), ('k0', 5), (7,), KeyError, Ellipsis,
            NotImplemented]

    def same(a, b):
        if isinstance(a, BaseException) or isinstance(b, BaseException):
            return type(a) is type(b) and a.args == b.args
        return type(a) is type(b) and a == b
    ops = {
        'map': lambda d: d.map(_ident),
        'prefetch1': lambda d: d.prefetch(1, 2),
        'prefetcht': lambda d: d.prefetch(2, 2, 't'),
        'parmap': lambda d: d.map(_ident, num_workers=2, buffer_size=2),
        'cache': lambda d: d.cache(),
        'ecache': lambda d: d.cache(lazy=False),
        'catch': lambda d: d.catch(),
        'copy': lambda d: d.copy(),
        'freeze': lambda d: d.copy(freeze=True),
        'slice': lambda d: d[::-1][::-1],
        'concat': lambda d: d[:3].concatenate(d[3:]),
        'batch-unbatch': lambda d: d.batch(5).unbatch(),
        'batch1-unbatch': lambda d: d.batch(1).unbatch(),
        'filter-true': lambda d: d.filter(lambda x: True),
        'efilter-true': lambda d: d.filter(lambda x: True, lazy=False),
        'tile1': lambda d: d.tile(1),
        'zip': lambda d: d.zip(d).map(lambda t: t[0]),
        'prefetch1-catch': lambda d: d.prefetch(1, 2, catch_filter_exception=True),
        'prefetcht-catch': lambda d: d.prefetch(2, 2, 't', catch_filter_exception=True),
        'apply-lazy': lambda d: d.apply(lambda x: x.map(_ident), lazy=True),
        'profiling': lambda d: ld.core.ProfilingDataset(d.map(_ident)),
        'diskcache': lambda d: d.diskcache(),
        'bucket': lambda d: d.map(lambda x: {'v': x, 'l': 1}).batch_dynamic_time_series_bucket(
            2, 'l', 0.5).unbatch().map(lambda e: e['v']),
        'groupby': lambda d: d.groupby(lambda x: 0)[0],
        'split1': lambda d: d.split(1)[0],
        'sort-stable': lambda d: d.map(lambda x: x).sort(lambda x: 0),
        'local-shuffle-1': lambda d: d.shuffle(True, rng=np.random.RandomState(0),
                                               buffer_size=1),
    }
    names = sorted(ops)
    plan = [(a,) for a in names] + list(itertools.product(names, repeat=2))
    cnt = 0
    for backing, w in (('list', 'pickle'), ('list', 'copy'), ('list', 'wu'),
                       ('dict', 'pickle'), ('dict', 'copy')):
        src = vals if backing == 'list' else {f'k{i}': v for i, v in enumerate(vals)}
        for chain in plan:
            cnt += 1
            if cnt % spec['mod'] != spec['rem']:
                continue
            if len(chain) == 2 and (backing, w) not in (('list', 'pickle'), ('dict', 'copy')):
                continue
            case = {'odd_values': True, 'backing': backing, 'immutable_warranty': w,
                    'stages': list(chain)}
            res.case(('odd', backing, w, chain), True)
            try:
                d = ld.from_list(src, immutable_warranty=w) if w == 'wu' else \
                    ld.new(src, immutable_warranty=w)
                for name in chain:
                    d = ops[name](d)
                got = [list(d), list(d)]
            except BaseException as e:
                # refused for ordinary examples too: a capability the
                # composition does not have, nothing about the values
                plain = list(range(len(vals)))
                psrc = plain if backing == 'list' else {f'k{i}': v for i, v in enumerate(plain)}
                try:
                    d = ld.from_list(psrc, immutable_warranty=w) if w == 'wu' else \
                        ld.new(psrc, immutable_warranty=w)
                    for name in chain:
                        d = ops[name](d)
                    list(d)
                except BaseException:
                    res.count('odd_value_compositions_not_offered')
                    continue
                res.violation('refused-supported-composition', case, exc_sig(e),
                              sig={'last_op': chain[-1], 'values': 'odd'})
                continue
            res.count('odd_value_iterations_compared', 2)
            for g in got:
                if len(g) != len(vals) or not all(same(a, b) for a, b in zip(g, vals)):
                    res.violation('iteration-differs-from-reference', case,
                                  {'got': repr(g)[:400], 'want': repr(vals)},
                                  sig={'last_op': chain[-1], 'values': 'odd'})
                    break


def run_cycle_passes(spec, res):
    """cycle() repeats the PIPELINE, not the objects of its first pass: a
    consumer (or a stage above) that works on the delivered examples in place
    sees pristine examples in every pass."""
    import copy
    import itertools
    from ..common import import_lazy_dataset, exc_sig
    ld = import_lazy_dataset()

    def mk(i):
        return {'id': i, 'v': 100, 'l': [i]}

    def inplace(e):
        e['v'] += 100
        e['l'].append('x')
        return e
    tails = {
        'cycle': lambda d: d.cycle(),
        'map.cycle': lambda d: d.map(lambda e: e).cycle(),
        'cycle.map-inplace': lambda d: d.cycle().map(inplace),
        'cycle.batch2': lambda d: d.cycle().batch(2),
        'cycle.prefetch1': lambda d: d.cycle().prefetch(1, 2),
        'items.cycle': lambda d: d.items().cycle(),
        'slice.cycle': lambda d: d[::-1].cycle(),
        'cache.cycle': lambda d: d.cache().cycle(),
    }
    for n in (1, 2, 5):
        for backing, w in (('list', 'pickle'), ('dict', 'pickle'), ('dict', 'copy'),
                           ('list', 'wu')):
            for tn, tail in tails.items():
                if tn == 'items.cycle' and backing == 'list':
                    continue
                case = {'cycle_passes': True, 'n': n, 'backing': backing,
                        'immutable_warranty': w, 'stages': tn}
                res.case(('cycle', n, backing, w, tn), True)
                src = [mk(i) for i in range(n)]
                if backing == 'dict':
                    src = {f'k{i}': e for i, e in enumerate(src)}
                try:
                    d = ld.from_list(src, immutable_warranty=w) if w == 'wu' else \
                        ld.new(src, immutable_warranty=w)
                    got = []
                    for x in itertools.islice(tail(d), 3 * n + 1):
                        got.append(copy.deepcopy(x))
                        # the consumer works on what it was handed
                        for e in (x if isinstance(x, list) else [x]):
                            e = e[1] if isinstance(e, tuple) else e
                            e['v'] = -1
                            e['l'].clear()
                except BaseException as e:
                    res.violation('refused-supported-composition', case, exc_sig(e),
                                  sig={'last_op': 'cycle', 'passes': True})
                    continue
                res.count('cycle_passes_with_in_place_consumers_compared')
                flat = [e for x in got for e in (x if isinstance(x, list) else [x])]
                flat = [e[1] if isinstance(e, tuple) else e for e in flat]
                want_v = 200 if tn == 'cycle.map-inplace' else 100
                bad = [e for e in flat
                       if e['v'] != want_v or e['l'] != ([e['id'], 'x'] if want_v == 200
                                                         else [e['id']])]
                if bad or len(flat) < 3 * n:
                    res.violation('second-iteration-differs', case,
                                  {'delivered': flat[:3 * n + 1]},
                                  sig={'last_op': 'cycle', 'passes': True})


def nontrivial(prog, status, m, o):
    return status == 'ok' and len(prog['ops']) >= 1 and m.n >= 1


def run_proc(spec, res):
    """Eager operations over a parallel stage with a PROCESS backend: plain
    epochs, keyed iteration, new(ds) and cache(lazy=False) deliver the mapped
    examples; over a source without keys the keyed iteration is refused
    (loudly) and the eager copies fall back to a plain pass - they never come
    back empty."""
    import os
    import json
    import subprocess
    from ..common import PYTHON, HOME, REPO
    from ..procpool import BACKENDS, run_child
    env = dict(os.environ, PYTHONPATH=f'{REPO}:{HOME}', OMP_NUM_THREADS='1',
               MKL_NUM_THREADS='1')
    want = [-i for i in range(6)]
    for be in BACKENDS:
        for via in ('parmap', 'prefetch'):
            for keyed in (False, True):
                sc = {'backend': be, 'via': via, 'keyed': keyed}
                case = {'process_backend': sc}
                sig = {'last_op': via, 'backend': be, 'harness': 'process-pool'}
                res.case(('proc', be, via, keyed), True)
                try:
                    p = run_child([PYTHON, '-W', 'ignore', '-m', 'vlib.c01_child',
                                   json.dumps(sc)], 120, cwd=str(HOME), env=env,
                                  capture_output=True, text=True)
                except subprocess.TimeoutExpired:
                    res.violation('iteration-differs-from-reference', case,
                                  {'consumer': 'never finished'}, sig=sig)
                    continue
                line = [l for l in p.stdout.splitlines() if l.startswith('RESULT ')]
                if not line:
                    res.inconclusive_because(f'process-pool child crashed: {p.stderr[-300:]}')
                    continue
                r = json.loads(line[0][7:])
                res.count('process_pool_pipelines_checked')
                bad = {}
                # (pickle-based backends cannot ship the keyed fetch function,
                # a local closure: keyed iteration of a keyed source is then
                # refused loudly, and so are the eager copies that try it)
                refused = r['items'] if keyed and r['items'][0] == 'raised' else None
                for k in ('epoch1', 'epoch2', 'epoch3', 'new', 'eager-cache'):
                    if r[k] != ['ok', want] and not (k in ('new', 'eager-cache')
                                                     and refused and r[k] == refused):
                        bad[k] = r[k]
                if r['new-len'] != ['ok', 6] and not (refused and r['new-len'] == refused):
                    bad['new-len'] = r['new-len']
                if keyed:
                    if r['items'][0] == 'ok' and r['items'][1] != [[f'k{i}', -i]
                                                                   for i in range(6)]:
                        bad['items'] = r['items']
                elif r['items'][0] == 'ok':
                    bad['items'] = r['items']          # no keys: must be refused
                if bad:
                    res.violation('iteration-differs-from-reference', case,
                                  {'differs': bad, 'want': want}, sig=sig)


def run_shard(spec, res):
    if spec.get('what') == 'proc':
        return run_proc(spec, res)
    if spec['what'] == 'slow':
        return run_slow(spec, res)
    if spec['what'] == 'odd':
        if spec['rem'] == 0:
            run_cycle_passes(spec, res)
        return run_odd_values(spec, res)
    if spec['what'] == 'schedpipe':
        from . import c04
        return c04.run_schedpipe(spec, res)
    progshards.run(spec, res, PROPERTY, ASPECTS, progengine.judge_c01, nontrivial)


def finalize(res, tier):
    if res.counters.get('iterations_compared', 0) < 1000:
        res.inconclusive_because('fewer than 1000 iterations were compared')
    return {'exhaustive_depth': max(progshards.LIMITS[tier]['depths']),
            'operation_pairs_seen': len(res.sets.get('op_pairs', ())),
            'operations_seen': len(res.sets.get('ops', ()))}


def replay(case, res):
    from ..common import import_lazy_dataset
    ld = import_lazy_dataset()
    if case.get('cycle_passes'):
        return run_cycle_passes({}, res)
    if case.get('odd_values'):
        return run_odd_values({'mod': 1, 'rem': 0}, res)
    prog = fix_prog(case['prog'])
    if 'schedule' in case:
        from . import c04
        return c04.run_schedpipe({'mod': 1, 'rem': 0, 'rnd_runs': 40, 'seed': 0,
                                  'name': 'replay'}, res)
    if 'consumer_stalls_after' in case:
        return run_slow({'part': 0}, res) or run_slow({'part': 1}, res) or \
            run_slow({'part': 2}, res) or run_slow({'part': 3}, res)
    status, m, o = progengine.run_case(ld, prog, ASPECTS)
    if status not in ('skip', 'watchdog'):
        progengine.judge_c01(prog, status, m, o, res)


def fix_prog(prog):
    """JSON round trip turns tuples into lists; operations must be tuples."""
    def fix(x):
        if isinstance(x, dict) and 'src' in x:
            return {'src': tuple(x['src']), 'ops': [fix(o) for o in x['ops']]}
        if isinstance(x, (list, tuple)):
            return tuple(fix(i) for i in x)
        return x
    return fix(prog)
