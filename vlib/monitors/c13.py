"""C13 - explicit seeds reproduce orders; frozen stays frozen; copies are faithful.

Monitors
  twin       two builds from the same seed, *different* global numpy state set
             before every epoch of each -> 3 epochs must be equal
  copytwin   the same with one side replaced by copy() of a fresh build
  prefetch   the same with one side placed behind prefetch(1,b) / prefetch(2,b,'t')
  frozen     one-time shuffle / copy(freeze=True): every iteration equal
  unordered  pipelines containing a reshuffling stage report ordered == False
  structure  vars() of every stage of a pipeline == vars() of its copy
  behaviour  each stage class built with non-default parameters: observation of
             copy() == observation of the original
"""
import logging
import itertools

import numpy as np

from ..common import import_lazy_dataset, exc_sig, rng_for

PROPERTY = 'C13'
LEVEL = 'exploration'
RULE = ('cases are (pipeline program with a seeded random stage, seed, rng kind) '
        'for the twin monitors and (stage class, parameter set) for copy '
        'fidelity; non-trivial iff the pipeline has >= 3 examples and the '
        'epochs of one build differ from each other or from source order; '
        'distinct by program+seed')
ASSUMPTIONS = ['rng objects are compared by identity or by equal generator state',
               'copy fidelity is judged on freshly built pipelines']
SHARD_TIMEOUT = {'quick': 300, 'thorough': 3000}

LIMITS = {'quick': dict(seeds=6, nprog=260), 'thorough': dict(seeds=20, nprog=2500)}


class MyErr(Exception):
    pass


def f(x):
    return ('f', x)


def g(x):
    return ('g', x)


def sid(t):
    while not isinstance(t, (int, np.integer)):
        if isinstance(t, tuple) and len(t) == 2 and isinstance(t[0], str):
            t = t[1]
        elif len(t) == 0:
            return -1
        else:
            t = t[0]
    return int(t)


def all_ids(x):
    """Sorted list of every source id occurring anywhere in a term."""
    out = []

    def rec(t):
        if isinstance(t, (int, np.integer)) and not isinstance(t, bool):
            out.append(int(t))
        elif isinstance(t, (list, tuple)):
            for y in t:
                rec(y)
    rec(x)
    return sorted(out)


def p3(x):
    return sid(x) % 3 != 0


def mk_rng(kind, seed):
    return (np.random.RandomState(seed) if kind == 'RandomState'
            else np.random.default_rng(seed))


RANDOM_STAGES = ('reshuffle', 'local2', 'local4', 'once', 'apply_reshuffle',
                 'apply_local', 'choice_all', 'choice_part', 'choice_replace')
PRE = ('none', 'map', 'slice', 'items', 'list')   # 'list': a source without keys
POST = ('none', 'map', 'batch2', 'items', 'concat_plain', 'filter', 'batch_unbatch',
        'catch', 'copy', 'cache_after', 'tile2', 'concat_self')
PREFETCH = ('p1', 'p2t', 'p1b3')


def build(ld, prog, seed, rngkind):
    """prog = (n, pre, stage, posts...)"""
    n, pre, stage, posts = prog
    ds = ld.new({f'k{i}': i for i in range(n)})
    if pre == 'list':
        ds = ld.new(list(range(n)))
    elif pre == 'map':
        ds = ds.map(f)
    elif pre == 'slice':
        ds = ds[::-1]
    elif pre == 'items':
        ds = ds.items()
    rng = mk_rng(rngkind, seed)
    if stage == 'reshuffle':
        ds = ds.shuffle(True, rng=rng)
    elif stage == 'local2':
        ds = ds.shuffle(True, rng=rng, buffer_size=2)
    elif stage == 'local4':
        ds = ds.shuffle(True, rng=rng, buffer_size=4)
    elif stage == 'once':
        ds = ds.shuffle(False, rng=rng)
    elif stage == 'choice_all':
        # a seeded draw of ALL examples without replacement: a permutation
        ds = ds.random_choice(len(ds), replace=False, rng_state=rng) if n else ds
    elif stage == 'choice_part':
        ds = ds.random_choice(max(n - 1, 0), False, rng) if n else ds
    elif stage == 'choice_replace':
        ds = ds.random_choice(n + 2, replace=True, rng_state=rng) if n else ds
    elif stage == 'apply_reshuffle':
        ds = ds.apply(lambda d, rng=rng: d.shuffle(True, rng=rng), lazy=True)
    elif stage == 'apply_local':
        ds = ds.apply(lambda d, rng=rng: d.shuffle(True, rng=rng, buffer_size=3),
                      lazy=True)
    for post in posts:
        if post == 'map':
            ds = ds.map(g)
        elif post == 'batch2':
            ds = ds.batch(2)
        elif post == 'items':
            ds = ds.items()
        elif post == 'concat_plain':
            ds = ds.concatenate(ld.new({f'q{i}': 100 + i for i in range(2)}))
        elif post == 'filter':
            ds = ds.filter(p3)
        elif post == 'batch_unbatch':
            ds = ds.batch(3).unbatch()
        elif post == 'catch':
            ds = ds.catch()
        elif post == 'copy':
            ds = ds.copy()
        elif post == 'tile2':
            ds = ds.tile(2)
        elif post == 'concat_self':
            ds = ds.concatenate(ds.map(g))
        elif post == 'cache_after':
            pass
    return ds


def supported(prog):
    n, pre, stage, posts = prog
    has_items = pre != 'list'
    for post in posts:
        if post == 'items' and not has_items:
            return False
        if post in ('batch2', 'batch_unbatch'):
            has_items = False
        if post == 'catch' and stage not in ('reshuffle', 'once'):
            return False     # catch needs len + indexable after freezing
        if post == 'catch' and posts.index(post) != 0:
            return False
        if post == 'concat_plain' and pre == 'items':
            pass
    if pre == 'items' and 'items' in posts:
        return True
    return True


def epochs(ds, k, global_seeds):
    out = []
    for gs in global_seeds[:k]:
        np.random.seed(gs)
        out.append(list(ds))
    return out


def check_twin(ld, prog, seed, rngkind, res):
    case = {'prog': prog, 'seed': seed, 'rng': rngkind}
    n, pre, stage, posts = prog
    try:
        a = epochs(build(ld, prog, seed, rngkind), 3, [11, 12, 13])
    except BaseException as e:
        res.count('unsupported_programs')
        res.seen('unsupported', f'{stage}/{",".join(posts)}: {type(e).__name__}')
        return
    nontrivial = n >= 3 and (a[0] != a[1] or a[1] != a[2] or
                             [sid(x) for x in a[0]] != sorted(sid(x) for x in a[0]))
    res.case(('twin', prog, seed, rngkind), nontrivial=nontrivial)
    sig = {'stage': stage,
           'shared_random_stage': any(p_ in ('tile2', 'concat_self') for p_ in posts)}
    # --- twin
    b = epochs(build(ld, prog, seed, rngkind), 3, [21, 22, 23])
    res.count('twin_comparisons')
    if a != b:
        res.violation('twin-differs', case, {'a': a, 'b': b}, sig=sig)
    # --- a twin that is asked for things before (and between) its epochs:
    # keys, a length, a key lookup, and key iteration - which a pipeline over
    # a key-less source refuses.  None of these is an epoch; the orders of the
    # epochs that follow are the same.
    pr = build(ld, prog, seed, rngkind)
    refused = 0
    outs = []
    for ep in range(3):
        for probe in (lambda: pr.keys(), lambda: len(pr), lambda: pr['k0'],
                      lambda: pr.indexable):
            try:
                probe()
            except BaseException:
                pass
        # (not below a lazy apply: it freezes - draws - whenever an iteration
        # is requested, also one that is refused afterwards)
        if pre == 'list' and not stage.startswith('apply_') and 'catch' not in posts:
            try:
                got = []
                for x in pr.items():
                    got.append(x)
            except BaseException:
                pass
            if got:
                refused = None      # key iteration delivered something: an epoch
                break
            refused += 1
        np.random.seed(80 + ep)
        outs.append(list(pr))
    if refused is not None:
        res.count('probed_twin_comparisons')
        res.count('key_iterations_refused_between_epochs', refused)
        if outs != a:
            res.violation('twin-differs', {**case, 'probed_between_epochs': True},
                          {'a': a, 'probed_twin': outs}, sig={**sig, 'probed': True})
    # an iterator that is asked for but never advanced (iter(ds) dropped,
    # zip([], ds), islice(ds, 0)) is not an epoch either: no order is drawn
    # before the first example is requested
    for variant in ('plain', 'prefetch-pool', 'prefetch-1'):
        try:
            un = build(ld, prog, seed, rngkind)
            if variant == 'prefetch-pool':
                un = un.prefetch(2, 2, 't')
            elif variant == 'prefetch-1':
                un = un.prefetch(1, 2)
            it0 = iter(un)
            del it0
            for _ in zip([], un):
                pass
            list(itertools.islice(un, 0))
            got_un = epochs(un, 3, [95, 96, 97])
        except BaseException:
            res.count('unstarted_iterator_variant_not_offered')
            continue
        res.count('unstarted_iterator_comparisons')
        if got_un != a:
            res.violation('twin-differs', {**case, 'unstarted_iterators_before': variant},
                          {'a': a, 'after_unstarted_iterators': got_un},
                          sig={**sig, 'unstarted': True, 'variant': variant})
            break
    # a snapshot (new(ds) tries key iteration first and falls back) is the
    # first epoch of a fresh build
    if pre == 'list' and stage in ('reshuffle', 'once', 'local2', 'local4') \
            and 'catch' not in posts:
        try:
            np.random.seed(90)
            snap = list(ld.new(build(ld, prog, seed, rngkind)))
        except BaseException:
            snap = None
        if snap is not None:
            res.count('snapshot_comparisons')
            if snap != a[0]:
                res.violation('twin-differs', {**case, 'snapshot': True},
                              {'first_epoch_of_twin': a[0], 'snapshot': snap},
                              sig={**sig, 'snapshot': True})
    # --- copy of a fresh build
    try:
        c_ds = build(ld, prog, seed, rngkind).copy()
    except NotImplementedError:
        res.count('copy_refused')
        c_ds = None
    if c_ds is not None:
        c = epochs(c_ds, 3, [31, 32, 33])
        res.count('copy_comparisons')
        if a != c:
            res.violation('copy-differs-from-twin', case, {'a': a, 'copy': c},
                          sig=sig)
    # --- frozen
    if stage == 'once':
        res.count('frozen_checks')
        if not (a[0] == a[1] == a[2]):
            res.violation('one-time-shuffle-changes', case, {'epochs': a}, sig=sig)
    try:
        fz = build(ld, prog, seed, rngkind).copy(freeze=True)
    except NotImplementedError:
        fz = None
    # Dataset.copy documents that freeze only affects the per-epoch reshuffle
    # (ReShuffleDataset); the buffer-local shuffle is not frozen by it and the
    # statement does not ask for that.
    if fz is not None and stage in ('reshuffle', 'apply_reshuffle', 'once'):
        fe = epochs(fz, 3, [41, 42, 43])
        res.count('frozen_checks')
        if not (fe[0] == fe[1] == fe[2]):
            res.violation('frozen-copy-changes', case, {'epochs': fe}, sig=sig)
        # ... also while the dataset it was copied from keeps being used
        src = build(ld, prog, seed, rngkind)
        try:
            fz2 = src.copy(freeze=True)
        except NotImplementedError:
            fz2 = None
        if fz2 is not None:
            np.random.seed(61)
            e0 = list(fz2)
            it = iter(fz2)
            head = list(itertools.islice(it, max(1, len(e0) // 2)))
            list(src)                      # the source draws its next order
            src.copy(freeze=True)          # and another frozen copy is taken
            tail = list(it)
            e1 = list(fz2)
            res.count('frozen_checks_with_live_source')
            if head + tail != e0 or e1 != e0:
                res.violation('frozen-copy-follows-its-source', case,
                              {'first': e0, 'interrupted': head + tail, 'after': e1},
                              sig=sig)
        if all_ids(fe[0]) != all_ids(a[0]):
            res.violation('frozen-copy-other-examples', case,
                          {'frozen': fe[0], 'twin_first_epoch': a[0]}, sig=sig)
    # --- ordered flag
    if stage in ('reshuffle', 'local2', 'local4'):
        try:
            o = build(ld, prog, seed, rngkind).ordered
            res.count('ordered_checks')
            if o is not False:
                res.violation('reshuffling-reports-ordered', case, {'ordered': o},
                              sig=sig)
        except BaseException as e:
            res.violation('ordered-raised', case, exc_sig(e), sig=sig)
    # --- behind prefetch
    for pf in PREFETCH:
        ds = build(ld, prog, seed, rngkind)
        try:
            if pf == 'p1':
                pds = ds.prefetch(1, 2)
            elif pf == 'p2t':
                pds = ds.prefetch(2, 2, 't')
            else:
                pds = ds.prefetch(1, 3)
            pe = epochs(pds, 3, [51, 52, 53])
        except BaseException as e:
            res.count('prefetch_unsupported')
            continue
        res.count('prefetch_comparisons')
        if pe != a:
            res.violation('prefetch-differs-from-twin', {**case, 'prefetch': pf},
                          {'a': a, 'prefetched': pe}, sig={**sig, 'prefetch': pf})
            continue
        # two iterations of ONE pool-prefetching dataset in flight (the pool
        # path freezes the order per iteration, so each iteration is one epoch
        # of the twin): start the first, run the second to its end, then
        # finish the first
        if pf == 'p2t' and stage in ('reshuffle', 'apply_reshuffle') and n >= 2 \
                and not sig['shared_random_stage']:
            try:
                pds = build(ld, prog, seed, rngkind).prefetch(
                    2, 2, 't', catch_filter_exception=(True if seed % 2 else None))
                np.random.seed(71)
                it1 = iter(pds)
                first = [next(it1)]
                second = list(pds)
                first += list(it1)
            except BaseException as e:
                res.violation('prefetch-differs-from-twin', {**case, 'prefetch': pf,
                                                             'two_iterators': True},
                              exc_sig(e), sig={**sig, 'prefetch': pf, 'two_iterators': True})
                continue
            res.count('prefetch_two_iterators_in_flight_comparisons')
            if first != a[0] or second != a[1]:
                res.violation('prefetch-differs-from-twin',
                              {**case, 'prefetch': pf, 'two_iterators': True},
                              {'twin_epochs': a[:2], 'first_started': first,
                               'second_started': second},
                              sig={**sig, 'prefetch': pf, 'two_iterators': True})
    if len(res.samples) < 2 and nontrivial:
        res.sample({'prog': prog, 'seed': seed, 'rng': rngkind, 'epochs': a})


# ---------------------------------------------------------------- structure
def is_dataset(ld, v):
    return isinstance(v, ld.Dataset)


def rng_equal(a, b):
    if a is b:
        return True
    if type(a) is not type(b):
        return False
    try:
        if isinstance(a, np.random.RandomState):
            sa, sb = a.get_state(), b.get_state()
            return sa[0] == sb[0] and np.array_equal(sa[1], sb[1]) and sa[2:] == sb[2:]
        if isinstance(a, np.random.Generator):
            return a.bit_generator.state == b.bit_generator.state
    except Exception:
        return False
    return False


def values_equal(ld, a, b, path, diffs, visited):
    if is_dataset(ld, a) or is_dataset(ld, b):
        compare_stages(ld, a, b, path, diffs, visited)
        return
    if isinstance(a, (list, tuple)) and isinstance(b, (list, tuple)) and \
            any(is_dataset(ld, x) for x in list(a) + list(b)):
        if len(a) != len(b):
            diffs.append((path, 'number of inputs', len(a), len(b)))
            return
        for i, (x, y) in enumerate(zip(a, b)):
            values_equal(ld, x, y, f'{path}[{i}]', diffs, visited)
        return
    if isinstance(a, (np.random.RandomState, np.random.Generator)) or a is np.random \
            or isinstance(b, (np.random.RandomState, np.random.Generator)) or b is np.random:
        if not rng_equal(a, b):
            diffs.append((path, 'rng', repr(a)[:60], repr(b)[:60]))
        return
    if isinstance(a, np.ndarray) or isinstance(b, np.ndarray):
        if not (isinstance(a, np.ndarray) and isinstance(b, np.ndarray)
                and np.array_equal(a, b)):
            diffs.append((path, 'array', repr(a)[:60], repr(b)[:60]))
        return
    if a is b:
        return
    try:
        eq = bool(a == b)
    except Exception:
        eq = False
    if not eq:
        diffs.append((path, 'value', repr(a)[:80], repr(b)[:80]))


def compare_stages(ld, a, b, path, diffs, visited):
    if (id(a), id(b)) in visited:
        return
    visited.add((id(a), id(b)))
    if type(a) is not type(b):
        diffs.append((path, 'type', type(a).__name__, type(b).__name__))
        return
    va, vb = vars(a), vars(b)
    for k, x in va.items():
        if k not in vb:
            # cached values (None) may be absent from the copy
            if x is None or k in ('_keys',):
                continue
            diffs.append((f'{path}.{k}', 'missing in copy', repr(x)[:60], None))
            continue
        values_equal(ld, x, vb[k], f'{path}<{type(a).__name__}>.{k}', diffs, visited)


class Src:
    """A sequence the bucket dataset can iterate."""


def stage_zoo(ld, seed):
    """(name, builder) for each Dataset subclass with non-default parameters.
    Each builder returns a fresh pipeline whose *top* stage is the class."""
    core = ld.core

    def d(n=5, off=0, p='k'):
        return ld.new({f'{p}{i}': i + off for i in range(n)}, name='nm')

    def l(n=5):
        return ld.new(list(range(n)), name='ln')

    def raising(x):
        if sid(x) % 2:
            raise MyErr(sid(x))
        return x

    zoo = [
        ('DictDataset', lambda: core.DictDataset({'a': 1, 'b': 2}, name='nm')),
        ('ListDataset', lambda: core.ListDataset([1, 2, 3], name='nm')),
        ('MapDataset', lambda: d().map(f)),
        ('ParMapDataset', lambda: d().map(f, num_workers=2, buffer_size=3, backend='t')),
        ('ApplyDataset', lambda: d().apply(lambda x: x.map(g), lazy=True)),
        ('CatchExceptionDataset', lambda: d().map(raising).catch((MyErr, KeyError), warn=True)),
        ('PrefetchDataset-1', lambda: d().map(raising).prefetch(1, 3, catch_filter_exception=(MyErr,))),
        ('PrefetchDataset-t', lambda: d().map(raising).prefetch(2, 3, 't', catch_filter_exception=(MyErr,))),
        ('PrefetchDataset-plain', lambda: d().map(f).prefetch(2, 4, 't')),
        ('ReShuffleDataset', lambda: d().shuffle(True, rng=np.random.RandomState(seed))),
        ('ReShuffleDataset-gen', lambda: d().shuffle(True, rng=np.random.default_rng(seed))),
        ('LocalShuffleDataset', lambda: d().shuffle(True, rng=np.random.RandomState(seed), buffer_size=3)),
        ('SliceDataset', lambda: d()[1::2]),
        ('SliceDataset-keys', lambda: d()[['k3', 'k1']]),
        ('FilterDataset', lambda: d().filter(p3)),
        ('ConcatenateDataset', lambda: d().concatenate(d(3, 10, 'q'), l(2))),
        ('IntersperseDataset', lambda: d().intersperse(d(3, 10, 'q'))),
        ('ZipDataset', lambda: d().zip(d(5, 10, 'q'))),
        ('KeyZipDataset', lambda: d().key_zip(d(5, 10))),
        ('ItemsDataset', lambda: d().items()),
        ('BatchDataset', lambda: d().batch(2, drop_last=True)),
        ('UnbatchDataset', lambda: d().batch(2).unbatch()),
        ('DynamicBucketDataset', lambda: ld.new([(i, 1 + i % 4) for i in range(9)]).batch_dynamic_time_series_bucket(
            batch_size=3, len_key=lambda x: x[1], max_padding_rate=0.5, max_total_size=8,
            expiration=3, max_buffered_examples=4, drop_incomplete=True,
            sort_key=lambda x: x[1], reverse_sort=True)),
        ('CacheDataset', lambda: d().map(f).cache(keep_mem_free='1 MB')),
        ('ProfilingDataset', lambda: core.ProfilingDataset(d().map(f))),
        ('DiskCacheDataset', lambda: d().map(f).diskcache(reuse=False, clear=True)),
        ('KeyZipDataset-3', lambda: d().key_zip(d(5, 10), d(5, 20).map(g))),
        ('ZipDataset-3', lambda: d().zip(d(5, 10, 'q'), l(5))),
        ('IntersperseDataset-3', lambda: d().intersperse(d(3, 10, 'q'), d(2, 20, 'r'))),
        ('CycleDataset', lambda: d().cycle()),
    ]
    return zoo


class _Count(logging.Handler):
    def __init__(self):
        super().__init__(level=logging.WARNING)
        self.n = 0

    def emit(self, record):
        self.n += 1


def behaviour(ld, ds):
    """Observation used to compare a stage with its copy."""
    obs = {}
    h = _Count()
    log = logging.getLogger('lazy_dataset')
    old = log.level
    log.addHandler(h)
    log.setLevel(logging.WARNING)
    try:
        for name, fn in (('iter', lambda: list(itertools.islice(ds, 40))),
                         ('len', lambda: len(ds)),
                         ('keys', lambda: tuple(ds.keys())),
                         ('repr', lambda: str(ds).split(' at 0x')[0].split('cache_dir=')[0]),
                         ('iter2', lambda: list(itertools.islice(ds, 40)))):
            try:
                obs[name] = fn()
            except BaseException as e:
                obs[name] = ('raised', type(e).__name__)
    finally:
        log.removeHandler(h)
        log.setLevel(old)
    obs['warnings'] = h.n
    return obs


def check_zoo(ld, seed, res):
    for name, mk in stage_zoo(ld, seed):
        case = {'stage': name, 'seed': seed}
        res.case(('zoo', name, seed))
        try:
            orig = mk()
        except BaseException as e:
            res.inconclusive_because(f'zoo builder {name} failed: {exc_sig(e)}')
            continue
        for freeze in (False, True):
            try:
                cp = mk().copy(freeze=freeze) if freeze else None
                if not freeze:
                    base = mk()
                    cp = base.copy()
            except NotImplementedError:
                res.count('copy_refused')
                res.seen('copy_refused_by', name)
                continue
            except BaseException as e:
                res.violation('copy-raised', {**case, 'freeze': freeze}, exc_sig(e),
                              sig={'stage': name.split('-')[0]})
                continue
            if not freeze:
                diffs = []
                compare_stages(ld, base, cp, 'ds', diffs, set())
                res.count('structural_comparisons')
                res.count('structural_attributes', _nattrs(ld, base))
                if diffs:
                    res.violation('copy-drops-parameter', case, {'diffs': diffs[:6]},
                                  sig={'stage': name.split('-')[0],
                                       'attr': diffs[0][0].split('.')[-1]})
            random_stage = name.split('-')[0] in ('ReShuffleDataset', 'LocalShuffleDataset')
            if freeze and random_stage:
                continue
            ob, cb = behaviour(ld, mk()), behaviour(ld, cp)
            res.count('behavioural_comparisons')
            if random_stage:
                # equal seeds, fresh generators on both sides
                pass
            if freeze:
                # a frozen copy may legitimately be another kind of dataset
                # (a reshuffle becomes a slice, a lazy apply is resolved) and
                # gain capabilities; only what it delivers is compared.
                keep = ('iter', 'iter2', 'warnings')
                ob = {k: ob[k] for k in keep}
                cb = {k: cb[k] for k in keep}
            if ob != cb:
                bad = {k: (ob[k], cb[k]) for k in ob if ob[k] != cb[k]}
                res.violation('copy-behaves-differently', {**case, 'freeze': freeze},
                              bad, sig={'stage': name.split('-')[0],
                                        'aspect': sorted(bad)[0]})


def _nattrs(ld, ds, seen=None):
    seen = set() if seen is None else seen
    if id(ds) in seen:
        return 0
    seen.add(id(ds))
    n = 0
    for k, v in vars(ds).items():
        if is_dataset(ld, v):
            n += _nattrs(ld, v, seen)
        elif isinstance(v, (list, tuple)) and any(is_dataset(ld, x) for x in v):
            n += sum(_nattrs(ld, x, seen) for x in v if is_dataset(ld, x))
        else:
            n += 1
    return n


def check_structure_prog(ld, prog, seed, rngkind, res):
    try:
        base = build(ld, prog, seed, rngkind)
        cp = base.copy()
    except BaseException:
        return
    diffs = []
    compare_stages(ld, base, cp, 'ds', diffs, set())
    res.count('structural_comparisons')
    if diffs:
        res.violation('copy-drops-parameter', {'prog': prog, 'seed': seed, 'rng': rngkind},
                      {'diffs': diffs[:6]},
                      sig={'stage': diffs[0][0].split('<')[-1].split('>')[0],
                           'attr': diffs[0][0].split('.')[-1]})


def all_programs():
    progs = []
    for n in (0, 1, 3, 5, 6):
        for pre in PRE:
            for stage in RANDOM_STAGES:
                for k in (0, 1, 2):
                    for posts in itertools.permutations(
                            [p for p in POST if p not in ('none', 'cache_after')], k):
                        prog = (n, pre, stage, tuple(posts))
                        if supported(prog):
                            progs.append(prog)
    return progs


def shards(tier, seed):
    J = 15
    out = [{'name': f'twin{j}', 'what': 'twin', 'mod': J, 'rem': j, **LIMITS[tier]}
           for j in range(J)]
    out.append({'name': 'zoo', 'what': 'zoo', **LIMITS[tier]})
    return out


def run_shard(spec, res):
    ld = import_lazy_dataset()
    if spec['what'] == 'zoo':
        for s in range(spec['seeds']):
            check_zoo(ld, spec['seed'] * 100 + s, res)
        return
    progs = all_programs()
    rng = rng_for(spec['seed'], PROPERTY, 'select')
    rng.shuffle(progs)
    # depth <= 1 programs always, deeper ones sampled
    small = [p for p in progs if len(p[3]) <= 1]
    deep = [p for p in progs if len(p[3]) > 1][:spec['nprog']]
    todo = small + deep
    for i, prog in enumerate(todo):
        if i % spec['mod'] != spec['rem']:
            continue
        for s in range(spec['seeds'] if len(prog[3]) <= 1 else 2):
            sd = spec['seed'] * 100 + s
            for rk in ('RandomState', 'default_rng'):
                check_twin(ld, prog, sd, rk, res)
        check_structure_prog(ld, prog, spec['seed'], 'RandomState', res)


def finalize(res, tier):
    for k in ('twin_comparisons', 'copy_comparisons', 'prefetch_comparisons',
              'frozen_checks', 'structural_comparisons', 'behavioural_comparisons'):
        if res.counters.get(k, 0) == 0:
            res.inconclusive_because(f'monitor {k} was never evaluated')
    return {}


def replay(case, res):
    ld = import_lazy_dataset()
    if 'prog' in case:
        prog = case['prog']
        prog = (prog[0], prog[1], prog[2], tuple(prog[3]))
        check_twin(ld, prog, case['seed'], case['rng'], res)
        check_structure_prog(ld, prog, case['seed'], case['rng'], res)
    else:
        check_zoo(ld, case['seed'], res)
