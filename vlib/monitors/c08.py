"""C08 - evaluation is demand-driven: nothing runs early, nothing runs twice.

Call-log monitor.  Every stage of a pipeline program gets its own logging user
function; the same program is evaluated by the lazy reference evaluator
(vlib/lazyref.py: generators + point-wise get) with its own log.
  construction   building with lazy combinators must log nothing
  prefix k       after k next() calls the per-stage call sequences must equal
                 the evaluator's (between the evaluator's at k and at
                 k + look-ahead behind a buffering stage; as multisets where a
                 thread pool logs)
  ds[i], ds[key] the calls must equal the evaluator's for that access and touch
                 only examples that are part of the returned term
For eager operations (filter(lazy=False), sort, cache(lazy=False)) the
construction-time log is recorded, not judged; what follows is judged.
"""
import os
import itertools
import collections

import numpy as np

from .. import programs, lazyref, observe as ob
from ..common import import_lazy_dataset, rng_for, exc_sig
from ..programs import Fns, op_name
from ..refmodel import Unsupported, Skip
from ..terms import Fn, Pred, SortKey, all_ids
from .c01 import fix_prog

PROPERTY = 'C08'
LEVEL = 'exploration'
RULE = ('pipeline programs over the lazy-evaluable alphabet: every program of '
        'depth <= 2 (quick, 6 sources) / 3 (thorough), plus random programs of '
        'depth <= 6; each is checked at construction, after every k = 1..n+1 '
        'next() calls, and for every index and key; non-trivial iff at least '
        'one logging stage was called during the checks; distinct by the program')
ASSUMPTIONS = ['only per-stage order is compared, not the interleaving between stages',
               'thread-pool stages are compared as multisets within the read-ahead window']
SHARD_TIMEOUT = {'quick': 600, 'thorough': 7000}
LIMITS = {'quick': dict(depths=(0, 1, 2), nrand=2500, maxdepth=6),
          'thorough': dict(depths=(0, 1, 2, 3), nrand=60000, maxdepth=8)}

SOURCES = [('dict', 3, 'pickle'), ('list', 3, 'pickle'), ('dict', 0, 'pickle'),
           ('list', 1, 'copy'), ('dict', 5, 'pickle'), ('list', 4, 'wu')]
SOURCES3 = [('dict', 3, 'pickle'), ('list', 4, 'pickle')]

EXCLUDED = {'tile_shuffle', 'apply_lazy', 'mapguard', 'single', 'concat_aba', 'intersperse_aba', 'catchprefetch'}


def alphabet(n, kind):
    return [op for op in programs.alphabet(n, kind) if op[0] not in EXCLUDED]


class LogFns(Fns):
    def __init__(self, log):
        self.log = log

    def fn(self, name, stage):
        return Fn(name, self.log, stage)

    def pred(self, m, stage):
        return Pred(m, self.log, stage)

    def sortkey(self, stage):
        return SortKey(self.log, stage)

    def groupfn(self, mod, stage):
        from ..terms import GroupFn
        return GroupFn(mod, self.log, stage)


def per_stage(calls):
    d = collections.defaultdict(list)
    for s, i in calls:
        d[s].append(i)
    return dict(d)


def is_prefix(a, b):
    return len(a) <= len(b) and b[:len(a)] == a


def sub_multiset(a, b):
    return not (collections.Counter(a) - collections.Counter(b))


def check(ld, prog, res):
    case = {'prog': prog}
    status, m = programs.classify(prog)
    if status != 'ok':
        return
    names = [op[0] for op in prog['ops']]
    if 'cache' in names and 'prefetcht' in names[names.index('cache'):]:
        # pool workers may request one cached index concurrently (a repeated
        # index below the pool); whether both miss is a matter of schedule,
        # which this property does not quantify over
        res.count('skipped_cache_below_pool')
        return
    lo = op_name(prog['ops'][-1]) if prog['ops'] else 'source'
    lib_log, ref_log = [], []
    try:
        B = lazyref.Build(LogFns(ref_log))
        node = B.run(prog)
    except (Unsupported, Skip):
        return
    except BaseException as e:
        res.inconclusive_because(f'lazy evaluator raised on {prog!r}: {exc_sig(e)}')
        return
    try:
        with ob.watchdog(15):
            before = res.violation_count
            called = _check(ld, prog, m, B, node, lib_log, ref_log, case, lo, res)
            if m.items and m.labelstate != 'none' and res.violation_count == before:
                # the same for keyed iteration (.items() on top of the pipeline)
                lib_log2, ref_log2 = [], []
                B2 = lazyref.Build(LogFns(ref_log2))
                node2 = B2.run(prog)
                res.count('keyed_iterations_checked')
                called += _check(ld, prog, m, B2, node2, lib_log2, ref_log2,
                                 {**case, 'keyed': True}, lo, res, keyed=True)
    except ob.Watchdog:
        res.inconclusive_because(f'watchdog on {prog!r}')
        return
    res.case(repr(prog), nontrivial=bool(called))


def _check(ld, prog, m, B, node, lib_log, ref_log, case, lo, res, keyed=False):
    called = 0
    try:
        ds = programs.build(ld, prog, fns=LogFns(lib_log))
    except BaseException as e:
        res.count('build_refused')
        return 0
    # ---- construction
    if not B.eager:
        res.count('constructions_checked')
        if lib_log:
            res.violation('construction-executed-user-code', case,
                          {'calls': lib_log[:8]}, sig={'last_op': lo})
            return 1
    else:
        res.count('eager_constructions_recorded')
    del lib_log[:]
    del ref_log[:]
    # ---- the evaluator's log after every k
    limit = (m.n + 1) if m.finite else (2 * m.n + 1)
    ref_vals, ref_marks = [], [0]
    it_ref = node.it()
    for _ in range(limit + B.lookahead + 2):
        try:
            pair = next(it_ref)
            ref_vals.append(pair if keyed else pair[1])
        except StopIteration:
            ref_vals.append(StopIteration)
            ref_marks.append(len(ref_log))
            break
        ref_marks.append(len(ref_log))
    full_ref = list(ref_log)

    def ref_at(k):
        k = min(k, len(ref_marks) - 1)
        return per_stage(full_ref[:ref_marks[k]])
    full_stage = per_stage(full_ref)
    # Behind a buffering stage the pipeline may legitimately have pulled
    # source examples that the remaining results never need (the stream ends,
    # a tail batch is dropped, ...).  When k + look-ahead reaches the end of
    # the result stream the upper bound is therefore widened by a complete
    # drain of the pipeline below the last buffering stage.
    drained = {}
    if B.lookahead and m.finite:
        BUF = ('prefetch1', 'parmap', 'prefetcht')
        dl = []

        def drain(p, stage_prefix):
            # everything below the last buffering stage of this (sub-)program,
            # and, recursively, of every operand program
            js = [i for i, op in enumerate(p['ops']) if op[0] in BUF]
            if js:
                mark = len(dl)
                try:
                    sub = lazyref.Build(LogFns(dl)).run(
                        {'src': p['src'], 'ops': p['ops'][:js[-1] + 1]},
                        stage_prefix=stage_prefix)
                    del dl[mark:]
                    for _ in sub.it():
                        pass
                except BaseException:
                    pass
            for i, op in enumerate(p['ops']):
                if op[0] in ('concat', 'intersperse', 'zip', 'key_zip') \
                        and isinstance(op[1], dict):
                    drain(op[1], f'{stage_prefix}{i}o')
        drain(prog, 's')
        mult = max(1, B.lookahead)      # generous: concurrent iterators
        for st, ids in per_stage(dl).items():
            drained[st] = ids * mult

    names_ = [op[0] for op in prog['ops']]
    first_buf = min([i for i, nme in enumerate(names_)
                     if nme in ('prefetch1', 'parmap', 'prefetcht')] or [10 ** 6])
    # a buffering stage that feeds one branch of a later intersperse / zip /
    # concatenate advances with its branch, not with the top-level result
    # count: only the drained bound applies there
    branchy = any(nme in ('intersperse', 'zip', 'key_zip', 'concat', 'tile')
                  for nme in names_[first_buf + 1:])

    def widen(upper, k):
        if not drained or (k + B.lookahead < len(ref_marks) - 1 and not branchy):
            return upper
        out = dict(upper)
        for st, ids in drained.items():
            out[st] = out.get(st, []) + ids
        return out
    # ---- iteration prefixes
    it = iter(ds.items()) if keyed else iter(ds)
    try:
        for k in range(1, limit + 1):
            try:
                v = next(it)
            except StopIteration:
                v = StopIteration
            except BaseException as e:
                res.count('iteration_refused')
                return called
            want = ref_vals[k - 1] if k - 1 < len(ref_vals) else None
            if v is not want and v != want:
                res.violation('value-differs-from-lazy-reference', {**case, 'k': k},
                              {'got': v if v is not StopIteration else 'STOP',
                               'want': want if want is not StopIteration else 'STOP'},
                              sig={'last_op': lo})
                return 1
            res.count('prefix_comparisons')
            lib = per_stage(lib_log)
            called += len(lib_log)
            lower, upper = ref_at(k), widen(ref_at(k + B.lookahead), k)
            widened = bool(drained) and (branchy or
                                         k + B.lookahead >= len(ref_marks) - 1)
            sig = {'last_op': lo, 'buffered': B.lookahead > 0}
            for st in set(lib) | set(lower):
                a = lib.get(st, [])
                lo_s, up_s = lower.get(st, []), upper.get(st, [])
                if B.lookahead == 0:
                    ok = a == lo_s
                elif B.pool_stage or widened:
                    ok = sub_multiset(lo_s, a) and sub_multiset(a, up_s)
                else:
                    ok = is_prefix(a, full_stage.get(st, [])) and \
                        len(lo_s) <= len(a) <= len(up_s)
                if not ok:
                    kind = 'calls-differ-after-k-results'
                    if len(a) > len(up_s):
                        kind = 'ran-ahead-of-demand'
                    elif sorted(a) != sorted(set(a)) and \
                            sorted(lo_s) == sorted(set(lo_s)):
                        kind = 'function-applied-twice'
                    res.violation(kind, {**case, 'k': k},
                                  {'stage': st, 'library_calls': a,
                                   'reference_calls_at_k': lo_s,
                                   'reference_calls_at_k_plus_lookahead': up_s,
                                   'lookahead': B.lookahead}, sig=sig)
                    return 1
            if v is StopIteration:
                break
    finally:
        close = getattr(it, 'close', None)
        if close:
            close()
    # ---- point access
    if keyed:
        return called
    if m.finite and m.indexable and m.sized and node.get is not None and m.n:
        lib_log2, ref_log2 = [], []
        try:
            ds2 = programs.build(ld, prog, fns=LogFns(lib_log2))
        except BaseException:
            return called
        node2 = lazyref.Build(LogFns(ref_log2)).run(prog)
        n = m.n
        order = list(range(n)) + list(range(-1, -n - 1, -1))
        for i in order:
            del lib_log2[:]
            del ref_log2[:]
            try:
                a = ds2[i if i % 2 else np.int64(i)]
            except BaseException as e:
                res.count('index_refused')
                break
            c = node2.get(i % n)[1]
            res.count('index_comparisons')
            called += len(lib_log2)
            sig = {'last_op': lo, 'access': 'index'}
            if a != c:
                res.violation('value-differs-from-lazy-reference', {**case, 'index': i},
                              {'got': a, 'want': c}, sig=sig)
                return 1
            if collections.Counter(lib_log2) != collections.Counter(ref_log2):
                res.violation('index-access-calls-differ', {**case, 'index': i},
                              {'library_calls': lib_log2[:12], 'reference_calls': ref_log2[:12]},
                              sig=sig)
                return 1
            ids = set(all_ids(a))
            extra = [c_ for c_ in lib_log2 if c_[1] not in ids]
            if extra:
                res.violation('index-access-touched-other-examples', {**case, 'index': i},
                              {'calls': extra[:8], 'result': a}, sig=sig)
                return 1
        if m.bykey and m.labelstate == 'unique' and node2.bykey is not None:
            for key in m.labels:
                del lib_log2[:]
                del ref_log2[:]
                try:
                    a = ds2[key]
                except BaseException:
                    res.count('key_refused')
                    break
                c = node2.bykey(key)
                res.count('key_comparisons')
                sig = {'last_op': lo, 'access': 'key'}
                if a != c:
                    res.violation('value-differs-from-lazy-reference', {**case, 'key': key},
                                  {'got': a, 'want': c}, sig=sig)
                    return 1
                if collections.Counter(lib_log2) != collections.Counter(ref_log2):
                    res.violation('key-access-calls-differ', {**case, 'key': key},
                                  {'library_calls': lib_log2[:12],
                                   'reference_calls': ref_log2[:12]}, sig=sig)
                    return 1
    return called


def exhaustive(depth, sources):
    for src in sources:
        alpha = alphabet(src[1], src[0])
        for ops in itertools.product(alpha, repeat=depth):
            yield {'src': src, 'ops': list(ops)}


def shards(tier, seed):
    lim = LIMITS[tier]
    J = 14
    out = [{'name': f'exh{j}', 'what': 'exh', 'mod': J, 'rem': j,
            'depths': list(lim['depths'])} for j in range(J)]
    nr = 2 if tier == 'quick' else 16
    for j in range(nr):
        out.append({'name': f'rand{j}', 'what': 'rand', 'count': lim['nrand'] // nr,
                    'maxdepth': lim['maxdepth']})
    out.append({'name': 'sched', 'what': 'sched', 'runs': 30 if tier == 'quick' else 600})
    out.append({'name': 'stores', 'what': 'stores'})
    return out


def run_sched(spec, res):
    """"At most one prefetch buffer ahead" under adversarial schedules: the
    parallel stages are run under the controlled scheduler (out-of-order
    completion, a starved consumer, a slow head task) and the number of function
    applications started beyond the results handed over is read off the event
    log."""
    import random
    from .. import conc, concshards as cs, detsched as D
    conc.env()
    rng = rng_for(spec['seed'], PROPERTY, spec['name'])
    for entry, n, b, w in (('lpm', 9, 2, 2), ('lpm', 12, 3, 3), ('parmap', 12, 4, 3),
                           ('pft', 9, 2, 2), ('pft', 12, 3, 3), ('pft', 12, 4, 3),
                           ('pf1', 9, 2, 1), ('stp', 9, 1, 1)):
        base_sc = cs.make(entry, n, b, w)
        from ..vias import VIAS
        for i in range(spec['runs']):
            seed = rng.randrange(1 << 30)
            name = ('youngest', 'starve', 'random', 'pct', 'sticky')[i % 5]
            sc = base_sc
            if entry in ('parmap', 'pft', 'pf1') and i % 2:
                # the same stage consumed through a copy / below a lazy apply /
                # inside the profiling wrapper: "one buffer ahead" is about the
                # buffer the user configured
                sc = dict(base_sc, path=VIAS[1 + (i // 2) % (len(VIAS) - 1)])
                res.count('scheduled_executions_through_copies')
            elif entry in ('parmap', 'pft', 'pf1') and i % 4 == 0:
                sc = dict(base_sc, neighbour=True)
            r = conc.run(sc, cs.chooser_for(name, random.Random(seed)))
            if r['deadlock'] or r['steplimit']:
                continue
            mp, ms = conc.readahead(sc, r)
            res.count('scheduled_executions')
            res.case(('sched', conc.trace_hash(r['events'])), r['max_enabled'] >= 2)
            res.maximum(f'started_minus_delivered:{entry}:b{b}:w{w}', ms)
            limit = b + 2 if entry in ('pf1', 'stp') else b
            if ms > limit or mp > b + 2:
                res.violation('ran-ahead-of-demand',
                              {'scenario': sc, 'schedule': (name, seed),
                               'choices': r['choices'][:300]},
                              {'started_minus_delivered': ms, 'pulled_minus_delivered': mp,
                               'buffer_size': b},
                              sig={'last_op': entry, 'buffered': True, 'harness': 'scheduler'})
                break


def run_shard(spec, res):
    if spec['what'] == 'sched':
        return run_sched(spec, res)
    if spec['what'] == 'stores':
        run_failing_consumers(res)
        return run_stores(spec, res)
    ld = import_lazy_dataset()
    if spec['what'] == 'exh':
        cnt = 0
        for d in spec['depths']:
            for prog in exhaustive(d, SOURCES if d < 3 else SOURCES3):
                cnt += 1
                if cnt % spec['mod'] == spec['rem']:
                    check(ld, prog, res)
    else:
        rng = rng_for(spec['seed'], PROPERTY, spec['name'])
        for _ in range(spec['count']):
            prog = programs.random_program(rng, spec['maxdepth'])
            if any(op[0] in EXCLUDED for op in prog['ops']):
                continue
            check(ld, prog, res)
    res.sample({'program': {'src': ('dict', 3, 'pickle'),
                            'ops': [('map', 'f'), ('filter', 2), ('batch', 2, False)]},
                'what_is_compared': 'per-stage (stage, example id) call sequences after every next()'})


def run_stores(spec, res):
    """Stages that keep what they computed (memory cache, disk cache, eager
    cache, new(ds)): whatever the examples are - None, falsy, empty, ordinary -
    the function below runs once per example, however often and in whichever
    way (iteration, index of either sign, key, items, slice, copy) the stage is
    read afterwards."""
    import collections
    ld = import_lazy_dataset()
    values = {'ordinary': lambda i: {'id': i}, 'none': lambda i: None if i % 2 == 0 else i,
              'falsy': lambda i: (0, '', [], {}, False, 0.0, b'')[i % 7],
              'all-none': lambda i: None}
    stores = {'cache': lambda d: d.cache(), 'diskcache': lambda d: d.diskcache(),
              'eager-cache': lambda d: d.cache(lazy=False), 'new(ds)': lambda d: ld.new(d),
              'cache.copy': lambda d: d.cache().copy(),
              'diskcache.copy': lambda d: d.diskcache().copy(),
              'cache-of-cache': lambda d: d.cache().map(lambda x: x).cache()}
    reads = [
        ('iter', lambda d, n: list(d)), ('iter-again', lambda d, n: list(d)),
        ('index', lambda d, n: [d[i] for i in range(n)]),
        ('negative-index', lambda d, n: [d[i - n] for i in range(n)]),
        ('key', lambda d, n: [d[f'k{i}'] for i in range(n)]),
        ('items', lambda d, n: list(d.items())), ('slice', lambda d, n: list(d[::-1])),
        ('copy', lambda d, n: list(d.copy())), ('prefetch', lambda d, n: list(d.prefetch(2, 2, 't'))),
        # an iteration suspended after its first example while the store is
        # read from the end, by index and completely through a slice
        ('nested', lambda d, n: [(x, d[-1], d[n // 2], list(d[::-1])) if j == 0 else x
                                 for j, x in enumerate(d)]),
    ]
    for n in (1, 4, 9):
        for vn, val in values.items():
            for sn, store in stores.items():
                for first in range(len(reads)):
                    case = {'stores': True, 'n': n, 'values': vn, 'store': sn,
                            'first_read': reads[first][0]}
                    calls = collections.Counter()

                    def fn(i, val=val, calls=calls):
                        calls[i] += 1
                        return val(i)
                    res.case(('stores', n, vn, sn, first), True)
                    try:
                        d = store(ld.new({f'k{i}': i for i in range(n)}).map(fn))
                        order = reads[first:] + reads[:first]
                        for rn, read in order:
                            try:
                                read(d, n)
                            except (NotImplementedError, TypeError, ValueError,
                                    AssertionError, KeyError, IndexError):
                                res.count('store_reads_not_offered')
                        del d
                    except BaseException as e:
                        res.violation('construction-raised', case, exc_sig(e),
                                      sig={'last_op': sn, 'stores': True})
                        continue
                    res.count('store_histories_checked')
                    twice = {i: c for i, c in calls.items() if c > 1}
                    if twice or sorted(calls) != list(range(n)):
                        res.violation('function-applied-twice', case,
                                      {'calls_per_example': dict(calls)},
                                      sig={'last_op': sn, 'stores': True, 'values': vn})


    # two handles on ONE cache directory alive at the same time (two datasets
    # opened on it with reuse=True; a dataset and its deep copy / pickle round
    # trip): what one of them stored is there for the other one
    import copy
    import pickle
    import shutil
    import tempfile
    for n in (4, 9):
        for second in ('opened-on-the-directory', 'deepcopy', 'pickle'):
            for order in ('a-then-b', 'alternating'):
                case = {'stores': True, 'n': n, 'store': 'diskcache', 'two_handles': second,
                        'order': order}
                calls = collections.Counter()

                def fn(i, calls=calls):
                    calls[i] += 1
                    return {'id': i}
                res.case(('two-handles', n, second, order), True)
                tmp = tempfile.mkdtemp(prefix='verif_c08_')
                try:
                    base = ld.new({f'k{i}': i for i in range(n)}).map(fn)
                    a = base.diskcache(os.path.join(tmp, 'c'), reuse=True, clear=False)
                    a[0]
                    if second == 'deepcopy':
                        b = copy.deepcopy(a)
                    elif second == 'pickle':
                        b = pickle.loads(pickle.dumps(a))
                    else:
                        b = base.diskcache(os.path.join(tmp, 'c'), reuse=True, clear=False)
                    if order == 'a-then-b':
                        got = [list(a), list(b), [b[i - n] for i in range(n)], list(a.items())]
                    else:
                        got = [[(a if i % 2 else b)[i] for i in range(n)],
                               [(b if i % 2 else a)[f'k{i}'] for i in range(n)], list(b)]
                    del a, b
                except (pickle.PicklingError, AttributeError, TypeError):
                    res.count('store_reads_not_offered')      # local function, not picklable
                    continue
                except BaseException as e:
                    res.violation('construction-raised', case, exc_sig(e),
                                  sig={'last_op': 'diskcache', 'stores': True,
                                       'two_handles': second})
                    continue
                finally:
                    shutil.rmtree(tmp, ignore_errors=True)
                res.count('store_histories_checked')
                res.count('two_handle_store_histories_checked')
                twice = {i: c for i, c in calls.items() if c > 1}
                if twice or sorted(calls) != list(range(n)):
                    res.violation('function-applied-twice', case,
                                  {'calls_per_example': dict(calls)},
                                  sig={'last_op': 'diskcache', 'stores': True,
                                       'two_handles': second})


def run_failing_consumers(res):
    """Eager operations that fail (a sort whose keys cannot be compared, a
    key / group / predicate function that raises for one example): the error
    reaches the caller and every user function has been applied at most once
    per example - a failure is no reason to evaluate anything again."""
    import collections
    ld = import_lazy_dataset()

    class Boom(TypeError):
        pass
    for n in (3, 6):
        for raises in (TypeError, ValueError, Boom, KeyError, NotImplementedError):
            ops = {
                'sort-incomparable-keys': lambda d, k: d.sort(k['mixed']),
                'sort-key-raises': lambda d, k: d.sort(k['raising']),
                'sort-reverse-key-raises': lambda d, k: d.sort(k['raising'], reverse=True),
                'groupby-raises': lambda d, k: d.groupby(k['raising']),
                'groupby-unhashable': lambda d, k: d.groupby(k['unhashable']),
                'eager-filter-raises': lambda d, k: d.filter(k['raising'], lazy=False),
                'eager-cache-raises': lambda d, k: d.map(k['raising']).cache(lazy=False),
                'new-of-raising': lambda d, k: ld.new(d.map(k['raising'])),
                # no failure at all: keyed iteration is refused late (at the
                # part without keys) and the copy is made from a plain pass
                'new-of-keyed-plus-keyless': lambda d, k: ld.new(
                    d.concatenate(ld.new([100, 200]))),
                'eager-cache-of-keyed-interspersed-with-keyless': lambda d, k:
                    d.intersperse(ld.new([100, 200])).cache(lazy=False),
            }
            for on, op in ops.items():
                for backing in ('dict', 'list'):
                    calls = collections.Counter()

                    def up(x, calls=calls):
                        calls['map', x] += 1
                        return x

                    def mixed(x, calls=calls):
                        calls['key', x] += 1
                        return None if x == 1 else x

                    def raising(x, calls=calls, raises=raises, n=n):
                        calls['key', x] += 1
                        if x == n - 2:
                            raise raises(x)
                        return x

                    def unhashable(x, calls=calls):
                        calls['key', x] += 1
                        return [x] if x == 1 else x
                    case = {'failing_consumer': on, 'n': n, 'raises': raises.__name__,
                            'source': backing}
                    res.case(('failing', on, n, raises.__name__, backing), True)
                    src = ld.new({f'k{i}': i for i in range(n)} if backing == 'dict'
                                 else list(range(n)))
                    failed = False
                    try:
                        out = op(src.map(up), {'mixed': mixed, 'raising': raising,
                                               'unhashable': unhashable})
                        if on.startswith(('eager-cache', 'new-of')):
                            list(out)
                    except BaseException:
                        failed = True
                    res.count('failing_eager_operations_checked')
                    if failed:
                        res.count('failing_eager_operations_that_raised')
                    twice = {str(k): c for k, c in calls.items() if c > 1}
                    if twice:
                        only_failing = all(k[1] == n - 2 and c == 2
                                           for k, c in calls.items() if c > 1)
                        res.violation('function-applied-twice', case,
                                      {'applications': twice, 'operation_raised': failed},
                                      sig={'last_op': ('from_dataset' if on.startswith(
                                          ('eager-cache', 'new-of')) else on.split('-')[0]),
                                           'failing': True, 'raises': raises.__name__,
                                           'only_the_failing_example': only_failing})


def finalize(res, tier):
    for k in ('constructions_checked', 'prefix_comparisons', 'index_comparisons',
              'key_comparisons'):
        if res.counters.get(k, 0) < 100:
            res.inconclusive_because(f'monitor {k} evaluated fewer than 100 times')
    return {'exhaustive_depth': max(LIMITS[tier]['depths'])}


def replay(case, res):
    if case.get('stores'):
        return run_stores({}, res)
    if 'scenario' in case:
        from .. import conc, detsched as D
        conc.env()
        sc = case['scenario']
        r = conc.run(sc, D.replay_chooser(case.get('choices', [])))
        mp, ms = conc.readahead(sc, r)
        if ms > sc['b'] + (2 if sc['entry'] in ('pf1', 'stp') else 0) or mp > sc['b'] + 2:
            res.violation('ran-ahead-of-demand', case,
                          {'started_minus_delivered': ms, 'pulled_minus_delivered': mp})
        return
    ld = import_lazy_dataset()
    check(ld, fix_prog(case['prog']), res)
