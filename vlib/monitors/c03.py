"""C03 - keys, items and key lookup are aligned with iteration order.

Differential monitor: keys(), items() and ds[key] (for every key of the sources
and two strings that are never keys) are observed on every program and compared
with the reference (key, value) list.  items() is also requested after every
*prefix* of every program.  An absent key must never return a value; which
exception is raised is tallied, not judged.
"""
from .. import progshards, progengine, observe as ob
from .c01 import fix_prog
from ..programs import op_name

PROPERTY = 'C03'
LEVEL = 'exploration'
RULE = ('the C01 program space over dict- and list-backed sources; a case is one '
        'program; non-trivial iff the reference result carries key labels and at '
        'least one of keys()/items()/ds[key] was compared; distinct by the program')
ASSUMPTIONS = ['reference interpreter vlib/refmodel.py',
               'any exception counts as a loud refusal of an absent key']
SHARD_TIMEOUT = {'quick': 600, 'thorough': 7000}
ASPECTS = ('keys', 'items', 'bykey')


def shards(tier, seed):
    out = progshards.shards(tier, seed, PROPERTY)
    for rk in ('RandomState', 'default_rng'):
        out.append({'name': f'random-items-{rk}', 'what': 'random-items', 'rng': rk,
                    'nmax': 4 if tier == 'quick' else 5,
                    'seeds': 3 if tier == 'quick' else 12})
    out.append({'name': 'proc-lookup', 'what': 'proc-lookup',
                'kinds': 2 if tier == 'quick' else 5})
    return out


def run_proc_lookup(spec, res):
    """A key the joined dataset does not contain is looked up inside the
    workers of a parallel map / pool prefetch, on every backend: the consumer
    gets the examples before it and then a lookup error (never a value, a
    broken pool or a hang)."""
    import os
    import json
    import subprocess
    from ..common import PYTHON, HOME, REPO
    from ..procpool import BACKENDS
    env = dict(os.environ, PYTHONPATH=f'{REPO}:{HOME}', OMP_NUM_THREADS='1',
               MKL_NUM_THREADS='1')
    kinds = ('dict', 'concat', 'slice', 'intersperse', 'map')[:spec['kinds']]
    for be in ('t',) + tuple(BACKENDS):
        for j, kind in enumerate(kinds):
            sc = {'backend': be, 'kind': kind, 'via': ('parmap', 'prefetch')[j % 2]}
            case = {'lookup_in_workers': sc}
            sig = {'backend': be, 'harness': 'process-pool', 'aspect': 'absent-key'}
            res.case(('proc-lookup', be, kind), True)
            try:
                from ..procpool import run_child
                p = run_child([PYTHON, '-W', 'ignore', '-m', 'vlib.c03_child',
                               json.dumps(sc)], 90, cwd=str(HOME), env=env,
                              capture_output=True, text=True)
            except subprocess.TimeoutExpired:
                res.violation('lookup-error-lost-in-transport', case,
                              {'consumer': 'blocked for 90 s'}, sig=sig)
                continue
            line = [l for l in p.stdout.splitlines() if l.startswith('RESULT ')]
            if not line:
                res.inconclusive_because(f'lookup child crashed: {p.stderr[-300:]}')
                continue
            r = json.loads(line[0][7:])
            res.count('absent_key_lookups_in_workers')
            if r['outcome'] != 'raised':
                res.violation('absent-key-returned-value', case, r, sig=sig)
            elif 'LookupError' not in r['mro']:
                res.violation('lookup-error-lost-in-transport', case, r, sig=sig)
            elif r['delivered'] != [2, 3]:
                res.violation('items-differ', case, r, sig=sig)


def run_random_items(spec, res):
    """items() of filtered / reshuffled / prefetched datasets pairs every
    yielded example with its own key - also with several keyed iterators in
    flight and with a new epoch started in between (machinery of C12)."""
    from ..common import import_lazy_dataset
    from . import c12
    ld = import_lazy_dataset()
    base = spec['seed'] * 1000
    for kind in c12.KEYED_KINDS:
        for n in range(0, spec['nmax'] + 1):
            for order in c12.interleavings([n + 1, n + 1]):
                for s_ in range(spec['seeds']):
                    for extra in (False, True):
                        c12.check_interleaved_items(ld, kind, n, 2, spec['rng'], base + s_,
                                                    order, res, extra, check_perm=False)


def prefix_hook_factory(prog, res):
    def hook(i, ds, m):
        if m is None or i == len(prog['ops']) or not m.finite or m.poisoned:
            return
        sub = {'src': prog['src'], 'ops': prog['ops'][:i]}
        lo = op_name(sub['ops'][-1]) if sub['ops'] else 'source'
        got = ob.take(ds, m.n + 3, with_items=True)
        res.count('prefix_items_requests')
        progengine.judge_items({'prog': sub}, m, got, res, lo, 'prefix')
        # use keys(), len() and a key lookup of every intermediate stage as a
        # user might: whatever a stage memoises must not leak into later stages
        ks = ob.guarded(lambda: tuple(ds.keys()))
        if not ob.is_err(ks):
            if m.listable and m.labelstate != 'none' and list(ks) != m.labels:
                res.violation('keys-differ', {'prog': sub}, {'keys': ks, 'want': m.labels,
                                                            'where': 'prefix'},
                              sig={'last_op': lo})
            if ks:
                ob.guarded(lambda: ds[ks[-1]])
        ob.guarded(lambda: len(ds))
    return hook


def nontrivial(prog, status, m, o):
    return status == 'ok' and m.finite and m.labelstate != 'none' and m.n >= 1


def run_shard(spec, res):
    if spec['what'] == 'random-items':
        return run_random_items(spec, res)
    if spec['what'] == 'proc-lookup':
        return run_proc_lookup(spec, res)
    progshards.run(spec, res, PROPERTY, ASPECTS, progengine.judge_c03, nontrivial,
                   prefix_hook_factory=prefix_hook_factory)


def finalize(res, tier):
    for k in ('keys_compared', 'items_compared', 'key_lookups', 'prefix_items_requests'):
        if res.counters.get(k, 0) < 100:
            res.inconclusive_because(f'monitor {k} evaluated fewer than 100 times')
    return {'exhaustive_depth': max(progshards.LIMITS[tier]['depths'])}


def replay(case, res):
    from ..common import import_lazy_dataset
    ld = import_lazy_dataset()
    if case.get('keyed'):
        from . import c12
        return c12.replay(case, res)
    prog = fix_prog(case['prog'])
    status, m, o = progengine.run_case(ld, prog, ASPECTS,
                                       prefix_hook=prefix_hook_factory(prog, res))
    if status not in ('skip', 'watchdog', 'build-error'):
        progengine.judge_c03(prog, status, m, o, res)
