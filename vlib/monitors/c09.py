"""C09 - examples handed out are isolated from the stored data.

History monitor.  Examples are nested containers; a history step takes an
example (or several) out of the dataset by some access path, mutates it in
place, and afterwards *every* access path is re-read and deep-compared with a
pristine snapshot taken before construction.  For the serialising modes the
container that was passed to the constructor is mutated as well.
"""
import copy
import shutil
import tempfile
import itertools

import numpy as np

from ..common import import_lazy_dataset, exc_sig, rng_for

PROPERTY = 'C09'
LEVEL = 'exploration'
RULE = ('a case is (construction, immutability mode, history); histories are '
        'sequences of (access path, mutator) steps: exhaustive up to length 2 '
        '(quick) / 3 (thorough) over 2 examples, random of length 30 over 4; '
        'non-trivial iff at least one step really obtained and mutated an '
        'object; distinct by (construction, history)')
ASSUMPTIONS = ['for immutable_warranty="copy" the original container is not '
               'mutated (the statement exempts it)']
SHARD_TIMEOUT = {'quick': 300, 'thorough': 3000}
LIMITS = {'quick': dict(L=2, stride2=30, nrand=18, disk_hist=20),
          'thorough': dict(L=3, stride2=1, stride3=97, nrand=1500, disk_hist=600)}


def example(i):
    return {'id': i, 'l': [i, [i]], 'd': {'k': i},
            'a': np.arange(4, dtype=np.int64) + i,
            'b': bytearray([i, i + 1]), 'f': np.full((2, 2), float(i))}


def example_t(i):
    """A *tuple* example (e.g. a (features, label) pair, an items() pair, a zip
    result) whose members are mutable."""
    return (i, [i, [i]], {'k': i}, np.arange(4, dtype=np.int64) + i, bytearray([i, i + 1]),
            frozenset([i]), (i, [i]))


def deq(x, y):
    """Deep equality that understands numpy arrays."""
    if isinstance(x, np.ndarray) or isinstance(y, np.ndarray):
        return (isinstance(x, np.ndarray) and isinstance(y, np.ndarray)
                and x.dtype == y.dtype and x.shape == y.shape and np.array_equal(x, y))
    if type(x) is not type(y):
        return False
    if isinstance(x, dict):
        return x.keys() == y.keys() and all(deq(x[k], y[k]) for k in x)
    if isinstance(x, (list, tuple)):
        return len(x) == len(y) and all(deq(a, b) for a, b in zip(x, y))
    return x == y


CONSTRUCTIONS = (
    # name, backing, mode, wrapper
    ('new-dict-pickle', 'dict', 'pickle', None),
    ('new-dict-copy', 'dict', 'copy', None),
    ('new-list-pickle', 'list', 'pickle', None),
    ('new-list-copy', 'list', 'copy', None),
    ('from_list-wu', 'list', 'wu', None),
    ('from_dict-pickle', 'dict', 'pickle', 'from'),
    ('tuple-pickle', 'tuple', 'pickle', None),
    ('cache-dict', 'dict', 'pickle', 'cache'),
    ('cache-list-copy', 'list', 'copy', 'cache'),
    ('cache-of-raw-list', 'list', 'raw', 'cache'),
    ('eager-cache-dict', 'dict', 'pickle', 'eager'),
    ('eager-cache-of-raw-list', 'list', 'raw', 'eager'),
    ('new-of-raw-dataset', 'dict', 'raw', 'newds'),
    # a cache over a stage that hands out its stored objects themselves (a
    # memoising loader): the object of a first access IS the upstream object,
    # the cache's snapshot is what keeps later accesses pristine
    ('cache-of-unisolated-list', 'list', 'rawshared', 'cache'),
    ('cache-of-unisolated-dict', 'dict', 'rawshared', 'cache'),
    ('diskcache-dict', 'dict', 'pickle', 'disk'),
    ('diskcache-of-raw-list', 'list', 'raw', 'disk'),
    # the same with tuple examples
    ('new-dict-copy-tuple', 'dict', 'copy', None),
    ('new-list-copy-tuple', 'list', 'copy', None),
    ('new-list-pickle-tuple', 'list', 'pickle', None),
    ('from_list-wu-tuple', 'list', 'wu', None),
    ('cache-dict-tuple', 'dict', 'pickle', 'cache'),
    ('cache-of-raw-list-tuple', 'list', 'raw', 'cache'),
    ('eager-cache-of-raw-list-tuple', 'list', 'raw', 'eager'),
    ('diskcache-of-raw-list-tuple', 'list', 'raw', 'disk'),
)

ACCESS = ('idx+', 'idx-', 'npidx', 'key', 'iter', 'items', 'slice-iter',
          'copy-idx', 'copy-iter', 'old-alias', 'iter-live', 'items-live',
          'fn-sort', 'fn-efilter', 'fn-lfilter', 'fn-map', 'fn-groupby', 'fn-sort-slice')
# 'iter-live' / 'items-live': every example is mutated inside the loop body, as
# soon as it has been yielded and before the next one is requested (a stage
# that stores what it computed *after* handing it out would store the mutation)
MUTATORS = ('append-inner', 'overwrite-nested', 'clear', 'del-key', 'extend-deep',
            'array-inplace', 'array-fill-bytes', 'container')


class World:
    def __init__(self, ld, cons, n, tmp):
        name, backing, mode, wrapper = cons
        self.cons = cons
        self.n = n
        self.keys = [f'k{i}' for i in range(n)]
        mk = example_t if name.endswith('-tuple') else example
        self.pristine = [mk(i) for i in range(n)]
        exs = [mk(i) for i in range(n)]
        if backing == 'dict':
            self.container = dict(zip(self.keys, exs))
        elif backing == 'tuple':
            self.container = tuple(exs)
        else:
            self.container = exs
        self.has_keys = backing == 'dict'
        core = ld.core
        if mode == 'rawshared':
            base = (core.DictDataset(self.container) if backing == 'dict'
                    else core.ListDataset(self.container))
            self.container_exempt = True
        elif mode == 'raw':
            # a dataset that hands out its stored objects; the stage under test
            # (cache / new(ds)) must isolate its *own* store from what it
            # returns.  Upstream objects are re-created per read by a map so
            # that the upstream itself stays pristine.
            if backing == 'dict':
                base = core.DictDataset(self.container).map(copy.deepcopy)
            else:
                base = core.ListDataset(self.container).map(copy.deepcopy)
            self.container_exempt = True
        elif wrapper == 'from':
            base = ld.from_dict(self.container, immutable_warranty=mode)
            self.container_exempt = mode == 'copy'
        elif mode == 'wu':
            base = ld.from_list(self.container, immutable_warranty='wu')
            self.container_exempt = False
        else:
            base = ld.new(self.container, immutable_warranty=mode)
            self.container_exempt = mode == 'copy'
        if wrapper == 'cache':
            self.ds = base.cache()
        elif wrapper == 'eager':
            self.ds = base.cache(lazy=False)
        elif wrapper == 'newds':
            self.ds = ld.new(base)
        elif wrapper == 'disk':
            self.ds = base.diskcache(cache_dir=tempfile.mkdtemp(dir=tmp))
        else:
            self.ds = base
        self.aliases = []

    # -- obtain objects
    def access(self, how, i):
        ds, n = self.ds, self.n
        if how == 'idx+':
            return [ds[i]]
        if how == 'idx-':
            return [ds[i - n]]
        if how == 'npidx':
            return [ds[np.int64(i)]]
        if how == 'key':
            return [ds[self.keys[i]]] if self.has_keys else []
        if how == 'iter':
            return list(ds)
        if how == 'items':
            return [v for _, v in ds.items()] if self.has_keys else []
        if how == 'slice-iter':
            return list(ds[i:])
        if how == 'copy-idx':
            return [ds.copy()[i]]
        if how == 'copy-iter':
            return list(ds.copy())
        if how == 'old-alias':
            return list(self.aliases[-3:])
        if how.startswith('fn-'):
            # the examples a USER FUNCTION is handed (sort key, predicate,
            # group function, mapped function): they are obtained from the
            # dataset like any other and are mutated by the caller afterwards
            seen = []

            def key0(x):
                seen.append(x)
                return 0

            def keep(x):
                seen.append(x)
                return True

            def same(x):
                seen.append(x)
                return x
            if how == 'fn-sort':
                list(ds.sort(key0))
            elif how == 'fn-efilter':
                list(ds.filter(keep, lazy=False))
            elif how == 'fn-lfilter':
                list(ds.filter(keep))
            elif how == 'fn-map':
                list(ds.map(same))
            elif how == 'fn-groupby':
                ds.groupby(key0)
            elif how == 'fn-sort-slice':
                list(ds[:].sort(key0))
            else:
                raise ValueError(how)
            return seen
        raise ValueError(how)

    def mutate(self, objs, mut):
        did = 0
        if mut == 'container':
            if self.container_exempt or isinstance(self.container, tuple):
                c = self.container
                if isinstance(c, tuple) and not self.container_exempt:
                    for ex in c:
                        ex['l'].append('c')
                        did += 1
                return did
            c = self.container
            vals = list(c.values()) if isinstance(c, dict) else list(c)
            for ex in vals:
                if isinstance(ex, tuple):
                    ex[1].append('c')
                    ex[2]['k'] = 'c'
                    ex[3][...] += 100
                else:
                    ex['l'].append('c')
                    ex['d']['k'] = 'c'
                    ex['a'] += 100
                did += 1
            if isinstance(c, dict):
                c['extra'] = example(99)
            else:
                c.append(example(99))
            return did
        for o in objs:
            if isinstance(o, tuple) and len(o) == 7:
                did += 1
                try:
                    if mut in ('append-inner', 'extend-deep'):
                        o[1].append('m')
                        o[1][1].append('m')
                        o[6][1].append('m')
                    elif mut in ('overwrite-nested', 'del-key'):
                        o[2]['k'] = 'm'
                        o[2].pop('gone', None)
                    elif mut == 'clear':
                        o[1].clear()
                        o[2].clear()
                    elif mut == 'array-inplace':
                        if o[3].flags.writeable:
                            o[3][...] = o[3] * 3
                            o[3][0] = -7
                    elif mut == 'array-fill-bytes':
                        o[4][0:1] = b'\xff'
                except (AttributeError, TypeError, IndexError, ValueError):
                    pass
                continue
            if not isinstance(o, dict):
                continue
            did += 1
            if mut == 'append-inner':
                if not isinstance(o.get('l'), list):
                    o['l'] = []
                o['l'].append('m')
            elif mut == 'overwrite-nested':
                if not isinstance(o.get('d'), dict):
                    o['d'] = {}
                o['d']['k'] = 'm'
            elif mut == 'clear':
                o.clear()
            elif mut == 'del-key':
                o.pop('id', None)
            elif mut == 'array-inplace':
                arr = o.get('a')
                if isinstance(arr, np.ndarray) and arr.size and arr.flags.writeable:
                    arr *= 3
                    arr[0] = -7
                else:
                    o['a'] = 'm'
            elif mut == 'array-fill-bytes':
                f = o.get('f')
                if isinstance(f, np.ndarray) and f.flags.writeable:
                    f.fill(-1.0)
                bb = o.get('b')
                if isinstance(bb, bytearray):
                    bb[0:1] = b'\xff'
            elif mut == 'extend-deep':
                l = o.get('l')
                if isinstance(l, list) and len(l) > 1 and isinstance(l[1], list):
                    l[1].append('m')
                else:
                    o['l'] = 'm'
        return did

    # -- read everything
    def read_all(self):
        ds, n = self.ds, self.n
        p = self.pristine
        out = []

        def eq(label, got, want):
            if not deq(got, want):
                out.append((label, repr(got)[:300], repr(want)[:300]))
        eq('iter', list(ds), p)
        for i in range(n):
            eq(f'ds[{i}]', ds[i], p[i])
            eq(f'ds[{i - n}]', ds[i - n], p[i])
        if self.has_keys:
            for i, k in enumerate(self.keys):
                eq(f'ds[{k!r}]', ds[k], p[i])
            eq('items', list(ds.items()), list(zip(self.keys, p)))
        eq('slice', list(ds[1:]), p[1:])
        eq('copy-iter', list(ds.copy()), p)
        eq('len', len(ds), n)
        if self.cons[3] != 'disk':
            # a transported copy (pickle round trip, deepcopy) is one more path
            # (a disk cache is left out: a second owner of the directory)
            import pickle
            try:
                blob = pickle.dumps(ds)
            except BaseException:
                blob = None          # not picklable (function defined locally)
            if blob is not None:
                eq('pickled-copy', list(pickle.loads(blob)), p)
            eq('deepcopy', list(copy.deepcopy(ds)), p)
        return out


def run_history(ld, cons, n, hist, tmp, res, cold=False):
    """`cold`: the history starts on a freshly built dataset (nothing cached
    yet), so its first steps obtain the objects of *first* accesses."""
    case = {'construction': cons[0], 'n': n, 'history': [list(s) for s in hist],
            'cold': cold}
    sig = {'construction': cons[0]}
    try:
        w = World(ld, cons, n, tmp)
        first = [] if cold else w.read_all()
    except BaseException as e:
        res.case((cons[0], n, tuple(hist)), False)
        res.violation('construction-or-first-read-raised', case, exc_sig(e), sig=sig)
        return
    if first:
        res.case((cons[0], n, tuple(hist)), False)
        res.violation('differs-before-any-mutation', case, {'diff': first[:2]}, sig=sig)
        return
    mutated = 0
    for step, (how, i, mut) in enumerate(hist):
        try:
            if how in ('iter-live', 'items-live'):
                if how == 'items-live' and not w.has_keys:
                    continue
                did = 0
                objs = []
                for x in (w.ds.items() if how == 'items-live' else w.ds):
                    x = x[1] if how == 'items-live' else x
                    objs.append(x)
                    did += w.mutate([x], mut if mut != 'container' else 'clear')
                res.count('examples_mutated_inside_the_loop', did)
            else:
                objs = w.access(how, i % n)
                did = None
        except BaseException as e:
            res.violation('access-raised', {**case, 'step': step}, exc_sig(e), sig=sig)
            break
        w.aliases.extend(objs)
        if did is None:
            did = w.mutate(objs, mut)
        mutated += did
        res.count('mutations_applied', did)
        try:
            diff = w.read_all()
        except BaseException as e:
            res.violation('read-raised-after-mutation', {**case, 'step': step},
                          exc_sig(e), sig={**sig, 'access': how, 'mutator': mut})
            break
        res.count('full_rereads')
        if diff:
            res.violation('mutation-leaked', {**case, 'step': step},
                          {'first_diff': diff[0], 'n_diffs': len(diff)},
                          sig={**sig, 'via': ('container' if mut == 'container'
                                              else 'handed-out')})
            break
    res.case((cons[0], n, tuple(hist), cold), mutated > 0)
    if cold:
        res.count('histories_on_a_cold_store')
    del w
    import gc
    gc.collect()


def run_unpicklable(ld, res, tmp):
    """Examples that cannot be pickled (they hold a function defined on the
    fly) but can be deep-copied.  A stage whose isolation rests on pickle may
    refuse them; if it hands one out, the usual rule holds: changing the
    handed-out object changes nothing that is read later."""
    core = ld.core

    def mk(i):
        return {'id': i, 'l': [i, [i]], 'fn': (lambda: i)}

    def view(x):
        return (x['id'], repr(x['l']), x['fn']())
    n = 3
    keys = [f'k{i}' for i in range(n)]
    pristine = [view(mk(i)) for i in range(n)]

    def build(cname):
        cont = dict(zip(keys, [mk(i) for i in range(n)]))
        if cname == 'cache-of-raw':
            return core.DictDataset(cont).map(copy.deepcopy).cache()
        if cname == 'cache-of-unisolated':
            return core.DictDataset(cont).cache()
        if cname == 'eager-cache-of-raw':
            return core.DictDataset(cont).map(copy.deepcopy).cache(lazy=False)
        if cname == 'diskcache-of-raw':
            return core.DictDataset(cont).map(copy.deepcopy).diskcache(
                cache_dir=tempfile.mkdtemp(dir=tmp))
        if cname == 'new-of-raw-dataset':
            return ld.new(core.DictDataset(cont).map(copy.deepcopy))
        return ld.new(cont, immutable_warranty=cname.split('-')[1])
    getters = {
        'idx': lambda ds: [ds[1]], 'idx-': lambda ds: [ds[-2]], 'key': lambda ds: [ds['k1']],
        'iter': lambda ds: list(ds), 'items': lambda ds: [v for _, v in ds.items()],
        'copy-idx': lambda ds: [ds.copy()[1]], 'slice': lambda ds: list(ds[1:]),
        'first-of-iter': lambda ds: [next(iter(ds))],
    }
    for cname in ('cache-of-raw', 'cache-of-unisolated', 'eager-cache-of-raw',
                  'diskcache-of-raw', 'new-of-raw-dataset', 'new-pickle', 'new-copy'):
        for how, get in getters.items():
            case = {'construction': cname, 'values': 'unpicklable', 'first_access': how}
            sig = {'construction': cname, 'values': 'unpicklable'}
            res.case(('unpicklable', cname, how), True)
            try:
                ds = build(cname)
                objs = get(ds)
            except BaseException:
                res.count('unpicklable_examples_refused')
                continue
            res.count('unpicklable_examples_handed_out', len(objs))
            for x in objs:
                x['l'].append(99)
                x['l'][1].append(7)
                x['id'] = -1
            leaks = []
            for rname, read in getters.items():
                try:
                    got = [view(x) for x in read(ds)]
                except BaseException:
                    continue
                want = {'idx': pristine[1:2], 'idx-': pristine[1:2], 'key': pristine[1:2],
                        'copy-idx': pristine[1:2], 'slice': pristine[1:],
                        'first-of-iter': pristine[:1]}.get(rname, pristine)
                res.count('rereads_after_mutating_unpicklable_examples')
                if got != want:
                    leaks.append((rname, got, want))
            if leaks:
                res.violation('mutation-leaked', case, {'first_diff': leaks[0],
                                                        'n_diffs': len(leaks)},
                              sig={**sig, 'via': 'handed-out'})


def all_steps(n):
    return [(how, i, mut) for how in ACCESS for i in range(n) for mut in MUTATORS
            if not ((how in ('iter', 'items', 'copy-iter', 'old-alias', 'iter-live',
                             'items-live') or how.startswith('fn-')) and i > 0)]


def shards(tier, seed):
    out = [{'name': 'race', 'what': 'race', 'cons': None,
            'race_reps': 2 if tier == 'quick' else 20, **LIMITS[tier]}]
    for c in CONSTRUCTIONS:
        out.append({'name': c[0], 'cons': c[0], **LIMITS[tier]})
        if tier == 'thorough' and c[3] != 'disk':
            for j in range(1, 4):
                out.append({'name': f'{c[0]}#{j}', 'cons': c[0], 'part': j, **LIMITS[tier]})
    return out


def run_shard(spec, res):
    if spec.get('what') == 'race':
        # two consumers that get "the same" example of a cold cache at the same
        # time each get their own object (machinery of C10)
        from . import c10
        c10.run_race(spec, res)
        tmp = tempfile.mkdtemp(prefix='verif_c09_')
        try:
            run_unpicklable(import_lazy_dataset(), res, tmp)
        finally:
            shutil.rmtree(tmp, ignore_errors=True)
        return
    ld = import_lazy_dataset()
    cons = next(c for c in CONSTRUCTIONS if c[0] == spec['cons'])
    rng = rng_for(spec['seed'], PROPERTY, spec['name'])
    tmp = tempfile.mkdtemp(prefix='verif_c09_')
    part = spec.get('part', 0)
    nparts = 4 if (spec['tier'] == 'thorough' and cons[3] != 'disk') else 1
    try:
        steps = all_steps(2)
        if cons[3] == 'disk':
            hists = [tuple(rng.choice(steps) for _ in range(rng.choice((1, 2, 3))))
                     for _ in range(spec['disk_hist'])]
        else:
            hists = []
            for L in range(1, spec['L'] + 1):
                if L >= 3:
                    st = spec.get('stride3', 97)
                    hists += list(itertools.islice(itertools.product(steps, repeat=L),
                                                   spec['seed'] % st, None, st))
                    continue
                hs = list(itertools.product(steps, repeat=L))
                if L >= 2 and spec['stride2'] > 1:
                    # quick tier: a seed-dependent residue class of the
                    # length-2 histories (all of them over 5 seeds)
                    hs = hs[spec['seed'] % spec['stride2']::spec['stride2']]
                hists += hs
        stateful = cons[3] in ('cache', 'eager', 'newds', 'disk')
        for j, h in enumerate(hists):
            if j % nparts != part:
                continue
            run_history(ld, cons, 2, h, tmp, res)
            if stateful and (len(h) == 1 or j % 3 == 0):
                run_history(ld, cons, 2, h, tmp, res, cold=True)
        steps4 = all_steps(4)
        nr = spec['nrand'] // (6 if cons[3] == 'disk' else nparts)
        for r_ in range(nr):
            h = tuple(rng.choice(steps4) for _ in range(30))
            run_history(ld, cons, 4, h, tmp, res, cold=stateful and r_ % 2 == 1)
        if stateful:
            # longer datasets, cold: a store that writes in batches only shows
            # within a batch
            for nn in (5, 17, 40):
                for how in ('iter-live', 'items-live', 'iter'):
                    for mut in ('append-inner', 'clear', 'array-inplace'):
                        run_history(ld, cons, nn, ((how, 0, mut),), tmp, res, cold=True)
        res.sample({'construction': cons[0], 'n': 2,
                    'history': [list(s) for s in hists[min(len(hists) - 1, 77)]],
                    'step_format': '(access path, example index, mutator)'})
    finally:
        shutil.rmtree(tmp, ignore_errors=True)


def finalize(res, tier):
    for k in ('mutations_applied', 'full_rereads'):
        if res.counters.get(k, 0) == 0:
            res.inconclusive_because(f'monitor {k} never evaluated')
    return {'constructions': [c[0] for c in CONSTRUCTIONS],
            'exhaustive_history_length': LIMITS[tier]['L']}


def replay(case, res):
    ld = import_lazy_dataset()
    if case.get('values') == 'unpicklable':
        tmp = tempfile.mkdtemp(prefix='verif_c09_')
        try:
            return run_unpicklable(ld, res, tmp)
        finally:
            shutil.rmtree(tmp, ignore_errors=True)
    if 'race' in case or 'threads' in case:
        from . import c10
        return c10.replay(case, res)
    cons = next(c for c in CONSTRUCTIONS if c[0] == case['construction'])
    tmp = tempfile.mkdtemp(prefix='verif_c09_')
    try:
        run_history(ld, cons, case['n'], tuple(tuple(s) for s in case['history']), tmp, res,
                    cold=case.get('cold', False))
    finally:
        shutil.rmtree(tmp, ignore_errors=True)
