"""C04 - prefetch and parallel map are transparent: same examples, same order.

History checker over executions of the real parallel_utils / PrefetchDataset /
ParMapDataset code:
  sched   controlled scheduler (vlib/detsched.py): every schedule with at most c
          preemptions for the small scenarios (bounded-exhaustive DFS), random /
          sticky / PCT / youngest-first / starve-the-consumer schedules beyond
  real    real threads and primitives with yield injection (sys.monitoring)
  proc    the four process backends with seeded per-task delays
Oracle per execution: delivered == [fn(x_i)] in order, every task started
exactly once, every source example read exactly once, len == input's.
"""
import random

from .. import conc, concshards as cs, detsched as D
from ..common import rng_for

PROPERTY = 'C04'
LEVEL = 'exploration'
RULE = ('a case is one execution (scenario, schedule); scenarios: entry point x n '
        'x buffer x workers x value/key iteration, full iteration, no faults; '
        'schedules: all with <= c preemptions (c=2 quick, 3 thorough) on n <= 2/3, '
        'seeded random/PCT/directed ones on larger scenarios; plus perturbed '
        'real-thread and process-pool executions; non-trivial iff >= 2 threads '
        'were enabled at some point (sched) / >= 2 examples (real, proc); '
        'distinct by the event trace')
ASSUMPTIONS = ['cooperative shims of Queue/Thread/ThreadPoolExecutor/Future behave as '
               'CPython 3.12 documents (cross-checked by the real-primitive runs)',
               'process-pool schedules are perturbed, not controlled']
SHARD_TIMEOUT = {'quick': 600, 'thorough': 7000}
LIMITS = {
    'quick': dict(dfs_n=2, dfs_b=2, dfs_bound=2, dfs_cap=1200, rnd_n=5, rnd_b=3, rnd_w=2,
                  rnd_runs=30, real_runs=300, proc_cases=2),
    'thorough': dict(dfs_n=3, dfs_b=2, dfs_bound=3, dfs_cap=30000, rnd_n=8, rnd_b=4,
                     rnd_w=3, rnd_runs=300, real_runs=5000, proc_cases=8),
}


def shards(tier, seed):
    lim = LIMITS[tier]
    out = []
    # (the long-running pipeline shards first, so that they start at once)
    for j in range(8):
        out.append({'name': f'pipe{j}', 'what': 'pipe', 'mod': 8, 'rem': j, **lim})
    J = 10
    for j in range(J):
        out.append({'name': f'dfs{j}', 'what': 'dfs', 'mod': J, 'rem': j, **lim})
    for j in range(3):
        out.append({'name': f'rnd{j}', 'what': 'rnd', 'mod': 3, 'rem': j, **lim})
    for j in range(2):
        out.append({'name': f'real{j}', 'what': 'real', 'mod': 2, 'rem': j, **lim})
    from ..procpool import BACKENDS
    for be in BACKENDS:
        out.append({'name': f'proc-{be}', 'what': 'proc', 'backend': be, **lim})
    out.append({'name': 'proc-serial', 'what': 'serial', **lim})
    for j in range(4):
        out.append({'name': f'schedpipe{j}', 'what': 'schedpipe', 'mod': 4, 'rem': j, **lim})
    return out


def scenarios(n, b, w, keys=True):
    out = []
    for entry, nn, bb, ww in cs.configs(n, b, w):
        out.append(cs.make(entry, nn, bb, ww))
        if keys and entry in ('pf1', 'pft', 'parmap') and nn >= 1:
            out.append(cs.make(entry, nn, bb, ww, key=True))
        # a filtering prefetch is transparent too: it delivers what the
        # sequential pipeline with the failing examples left out delivers
        if entry in ('pf1', 'pft') and nn >= 2 and bb == ww:
            for catch, kind in (('true', 'filter'), ('user', 'user')):
                for key in ((False, True) if keys else (False,)):
                    out.append(cs.make(entry, nn, bb, ww, catch=catch, key=key,
                                       faults={'fn': {str(nn // 2): kind}}))
        if entry in ('pf1', 'pft', 'parmap', 'chain') and nn >= 2 and bb == ww:
            out.append(cs.make(entry, nn, bb, ww, neighbour=True))
        # two iterators over one dataset object, consumed in lock step
        if entry in ('pf1', 'pft', 'parmap', 'chain') and nn >= 2 and bb == ww:
            out.append(cs.make(entry, nn, bb, ww, dual=True))
            if keys and entry in ('pft', 'parmap'):
                out.append(cs.make(entry, nn, bb, ww, dual=True, key=True))
    return out


def run_shard(spec, res):
    what = spec['what']
    if what in ('dfs', 'rnd'):
        e = conc.env()
        ld = e['ld']

        def on_run(sc, r):
            cs.note(res, sc, r)
            if sc.get('dual'):
                res.count('executions_with_two_iterators_over_one_object')
            if sc.get('catch'):
                res.count('executions_of_a_filtering_prefetch')
            ok = conc.judge_transparent(sc, r, res, ld)
            if r['deadlock']:
                res.count('deadlocks_left_to_C05')
            res.case(conc.trace_hash(r['events']), r['max_enabled'] >= 2)
        if what == 'dfs':
            scs = scenarios(spec['dfs_n'], spec['dfs_b'], 2)
            for i, sc in enumerate(scs):
                if i % spec['mod'] != spec['rem']:
                    continue
                dfs = cs.explore_dfs(sc, spec['dfs_bound'], spec['dfs_cap'], on_run)
                res.count('dfs_scenarios')
                if dfs.complete:
                    res.count('dfs_scenarios_exhausted_within_bound')
            res.sample({'scenario': scs[spec['rem'] % len(scs)],
                        'schedules': 'all with <= %d preemptions' % spec['dfs_bound']})
        else:
            rng = rng_for(spec['seed'], PROPERTY, spec['name'])
            scs = scenarios(spec['rnd_n'], spec['rnd_b'], spec['rnd_w'])
            for i, sc in enumerate(scs):
                if i % spec['mod'] != spec['rem'] or sc['n'] < 2:
                    continue
                cs.explore_random(sc, spec['rnd_runs'], rng, on_run)
    elif what == 'real':
        run_real(spec, res)
    elif what == 'proc':
        run_proc(spec, res)
    elif what == 'serial':
        run_serial(spec, res)
    elif what == 'pipe':
        run_pipe(spec, res)
    elif what == 'schedpipe':
        run_schedpipe(spec, res)


def run_real(spec, res):
    from .. import realthreads as rt
    e = conc.env(shim=False)
    ld = e['ld']
    counter = rt.install_perturbation(e['pu'], spec['seed'], 0.08)
    rng = rng_for(spec['seed'], PROPERTY, spec['name'])
    scs = [sc for sc in scenarios(6, 3, 3) if sc['n'] >= 2]
    for i in range(spec['real_runs'] // spec['mod']):
        sc = rng.choice(scs)
        seed = rng.randrange(1 << 30)
        r = rt.run(sc, seed, on_hang=hang_exit(res, sc, seed))
        res.count('real_thread_executions')
        conc.judge_transparent(sc, r, res, ld)
        co = conc.completion_order(r['events'])
        if list(co) != sorted(co):
            res.count('real_executions_with_out_of_order_completion')
        res.case(('real', conc.trace_hash(r['events'])), sc['n'] >= 2)
    res.count('yield_injection_line_events', counter[0])


def hang_exit(res, sc, seed):
    """A hang under real threads cannot be undone: record it and end the shard."""
    def cb(info):
        import os
        import pickle
        if info.get('consumer_blocked'):
            res.violation('hang-real-threads', {'scenario': sc, 'seed': seed}, info,
                          sig={'entry': sc['entry'], 'harness': 'real-threads'})
        else:
            res.inconclusive_because(f'watchdog fired, consumer not blocked: {info}')
        out = os.environ.get('VERIF_OUT_PATH')
        if out:
            with open(out, 'wb') as fd:
                pickle.dump(res.dump(), fd)
        os._exit(0)
    return cb


def run_proc_odd(spec, res):
    """None / falsy / empty examples, exception objects and pairs as examples
    through the process pools: the same values (type and repr) in the same
    order - none of them is mistaken for a marker of the machinery."""
    import os
    import json
    import subprocess
    from ..common import PYTHON, HOME, REPO
    env = dict(os.environ, PYTHONPATH=f'{REPO}:{HOME}', OMP_NUM_THREADS='1',
               MKL_NUM_THREADS='1')
    be = spec['backend']
    for via in ('prefetch', 'parmap', 'items', 'catch'):
        if via in ('catch', 'items') and be not in ('mp', 'dill_mp'):
            # the catching / keyed fetch function is a local closure: only the
            # dill-based backends can ship it (the others refuse loudly)
            continue
        sc = {'backend': be, 'via': via}
        case = {'odd_values_through': sc}
        sig = {'entry': via, 'backend': be, 'harness': 'process-pool', 'values': 'odd'}
        res.case(('proc-odd', be, via), True)
        try:
            from ..procpool import run_child
            p = run_child([PYTHON, '-W', 'ignore', '-m', 'vlib.c04_odd_child',
                           json.dumps(sc)], 120, cwd=str(HOME), env=env,
                          capture_output=True, text=True)
        except subprocess.TimeoutExpired:
            res.violation('iteration-never-completes', case, None, sig=sig)
            continue
        line = [l for l in p.stdout.splitlines() if l.startswith('RESULT ')]
        if not line:
            res.inconclusive_because(f'odd-values child crashed: {p.stderr[-300:]}')
            continue
        r = json.loads(line[0][7:])
        res.count('process_pool_executions')
        res.count('process_pool_odd_value_executions')
        if r['outcome'] != 'exhausted' or r['delivered'] != r['want'] or \
                r.get('keys', None) not in (None, [f'k{i}' for i in range(len(r['want']))]):
            res.violation('delivered-sequence-differs', case,
                          {k: r.get(k) for k in ('outcome', 'error', 'delivered', 'keys')},
                          sig=sig)


def run_proc(spec, res):
    run_proc_odd(spec, res)
    run_proc_diskcache(spec, res)
    from .. import procpool as pp
    be = spec['backend']
    rng = rng_for(spec['seed'], PROPERTY, spec['name'])
    for entry in ('pft', 'parmap'):
        for c in range(spec['proc_cases']):
            n = rng.choice((5, 7, 9))
            w = rng.choice((2, 3))
            b = rng.choice((w, w + 1, w + 2))
            delays = [rng.choice((0.0, 0.0, 0.01, 0.03, 0.05)) for _ in range(5)]
            delays[0] = 0.05        # the first task finishes late
            sc = {'entry': entry, 'n': n, 'b': b, 'w': w, 'backend': be,
                  'delays': delays, 'stop': ['exhaust']}
            r = pp.run_case(sc)
            case = {'scenario': sc}
            sig = {'entry': entry, 'backend': be, 'harness': 'process-pool'}
            if r.get('timeout') or r.get('crash'):
                res.inconclusive_because(f'process-pool case failed to run: {r}')
                continue
            res.count('process_pool_executions')
            ends = [i for w_, i, _, _ in r['records'] if w_ == 'end']
            starts = [i for w_, i, _, _ in r['records'] if w_ == 'start']
            res.case(('proc', be, entry, tuple(ends)), ends != sorted(ends))
            res.seen(f'proc_completion_orders:{be}', tuple(ends))
            if ends != sorted(ends):
                res.count('proc_executions_with_out_of_order_completion')
            want = [('f', i) for i in range(n)]
            first = r['first']
            if pp.delivered(first) != want or first['outcome'] != 'exhausted':
                res.violation('delivered-sequence-differs', case,
                              {'delivered': first['delivered'], 'outcome': first['outcome'],
                               'extra': first['extra']}, sig=sig)
                continue
            if sorted(starts) != list(range(n)):
                res.violation('not-evaluated-exactly-once', case, {'starts': starts}, sig=sig)
            if r['len'] != n:
                res.violation('len-differs', case, {'len': r['len']}, sig=sig)
    # deep buffers (many times the number of workers) and lengths that are
    # multiples / non-multiples of buffer_size // (k * workers): the sizes at
    # which a stage starts to hand several examples to a worker at once
    for entry, w, b, n in (('pft', 1, 32, 4), ('pft', 2, 64, 6), ('pft', 2, 100, 9),
                           ('pft', 3, 96, 8), ('parmap', 2, 64, 6), ('pft', 2, 128, 13),
                           ('pft', 1, 64, 12)):
        sc = {'entry': entry, 'n': n, 'b': b, 'w': w, 'backend': be,
              'delays': [0.0, 0.01], 'stop': ['exhaust']}
        r = pp.run_case(sc)
        case = {'scenario': sc}
        sig = {'entry': entry, 'backend': be, 'harness': 'process-pool', 'buffer': 'deep'}
        if r.get('timeout') or r.get('crash'):
            res.inconclusive_because(f'process-pool case failed to run: {str(r)[:300]}')
            continue
        res.count('process_pool_executions')
        res.count('process_pool_deep_buffer_executions')
        res.case(('proc-deep', be, entry, w, b, n), True)
        first = r['first']
        starts = [i for w_, i, _, _ in r['records'] if w_ == 'start']
        if pp.delivered(first) != [('f', i) for i in range(n)] or \
                first['outcome'] != 'exhausted':
            res.violation('delivered-sequence-differs', case,
                          {'delivered': first['delivered'], 'outcome': first['outcome'],
                           'extra': first['extra']}, sig=sig)
        elif sorted(starts) != list(range(n)):
            res.violation('not-evaluated-exactly-once', case, {'starts': starts}, sig=sig)
        elif r['len'] != n:
            res.violation('len-differs', case, {'len': r['len']}, sig=sig)


def run_proc_diskcache(spec, res):
    """A disk cache below a process-pool prefetch ("works with all backends
    for prefetching"): both epochs deliver the pipeline's examples, the second
    one without computing anything again, and the directory is there as long
    as the dataset is."""
    from .. import procpool as pp
    be = spec['backend']
    n = 7
    sc = {'entry': 'pft', 'n': n, 'b': 3, 'w': 2, 'backend': be, 'delays': [0.0, 0.01],
          'diskcache': True}
    r = pp.run_case(sc, timeout=90)
    case = {'scenario': sc}
    sig = {'entry': 'diskcache+pft', 'backend': be, 'harness': 'process-pool'}
    res.case(('proc-diskcache', be), True)
    if r.get('timeout'):
        res.violation('iteration-never-completes', case, None, sig=sig)
        return
    if r.get('crash'):
        res.inconclusive_because(f'process-pool case crashed: {str(r)[:300]}')
        return
    res.count('process_pool_executions')
    res.count('process_pool_diskcache_executions')
    want = [('f', i) for i in range(n)]
    for name in ('first', 'second'):
        o = r[name]
        if o['outcome'] != 'exhausted' or pp.delivered(o) != want:
            res.violation('delivered-sequence-differs', case, {name: o}, sig=sig)
            return
    starts = [i for w_, i, _, _ in r['records'] if w_ == 'start']
    if sorted(starts) != list(range(n)):
        res.violation('not-evaluated-exactly-once', case, {'starts': sorted(starts)}, sig=sig)
    elif not r['dir_while_alive'] or r['dir_after_release']:
        res.violation('cache-directory-lifetime', case,
                      {k: r[k] for k in ('dir_while_alive', 'dir_after_release')}, sig=sig)


def run_pipe(spec, res):
    """Transparency over arbitrary upstream pipelines: for a pipeline program P
    (from the generator of the program-based monitors) the prefetched /
    parallel-mapped pipeline must deliver exactly what P delivers.  Real
    threads; what varies here is the *pipeline below* the parallel stage
    (copies, frozen copies, batches, concatenations, slices ...)."""
    import itertools
    from .. import programs, observe as ob
    from ..common import import_lazy_dataset
    from ..terms import Fn
    from .c20 import shared_random
    from ..common import stable_hash
    ld = import_lazy_dataset()
    rng = rng_for(spec['seed'], PROPERTY, spec['name'])
    srcs = [('dict', 5, 'pickle'), ('list', 7, 'pickle'), ('dict', 2, 'copy'),
            ('list', 4, 'wu'), ('dict', 8, 'pickle')]
    excluded = {'prefetch1', 'prefetcht', 'parmap', 'cycle', 'tile_shuffle', 'apply_lazy'}

    def progs():
        cnt = 0
        for d in (1, 2):
            for src in srcs[:3]:
                alpha = [op for op in programs.alphabet(src[1], src[0])
                         if op[0] not in excluded]
                for ops in itertools.product(alpha, repeat=d):
                    cnt += 1
                    if cnt % (spec['mod'] * (1 if d == 1 else 3)) == spec['rem']:
                        yield {'src': src, 'ops': list(ops)}
        for _ in range(spec['rnd_runs'] * 100 // spec['mod']):
            p = programs.random_program(rng, 5, sources=srcs)
            if not any(op[0] in excluded for op in p['ops']):
                yield p
        # seeded per-epoch shuffles below the parallel stage (every build gets a
        # fresh, equally seeded generator, so the plain pipeline is the twin)
        RND = [('reshuffle', 3), ('reshuffle', 11), ('localshuffle', 3, 5)]
        tails = [[], [('tile', 2)], [('concat', 'self')], [('map', 'f')],
                 [('batch', 2, False)], [('tile', 3), ('map', 'g')],
                 [('concat', 'selfmap')], [('items',)]]
        # (zip / intersperse of a reshuffle with itself iterate one dataset
        # object twice at the same time: the plain pipeline is then subject to
        # the known finding C12-reshuffle-shared-permutation and is no reference)
        heads = [[], [('map', 'f')], [('slice', 'slice', (None, None, -1))]]
        k = 0
        for src in srcs[:2] + [('dict', 8, 'pickle')]:
            for h in heads:
                for r in RND:
                    for t in tails:
                        k += 1
                        if k % spec['mod'] == spec['rem']:
                            yield {'src': src, 'ops': h + [r] + t}
    variants = [('prefetch(2,2,t)', lambda d: d.prefetch(2, 2, 't'), True),
                ('prefetch(3,4,t)', lambda d: d.prefetch(3, 4, 't'), True),
                ('prefetch(1,2)', lambda d: d.prefetch(1, 2), False),
                ('map(g,num_workers=2,buffer=3)',
                 lambda d: d.map(Fn('g'), num_workers=2, buffer_size=3), False),
                # the parallel stage consumed through a copy of itself
                ('prefetch(2,3,t).copy()', lambda d: d.prefetch(2, 3, 't').copy(), True),
                ('ProfilingDataset(prefetch(2,2,t))',
                 lambda d: ld.core.ProfilingDataset(d.prefetch(2, 2, 't')), True),
                ('map(g,num_workers=2,buffer=2).copy()',
                 lambda d: d.map(Fn('g'), num_workers=2, buffer_size=2).copy(), False)]
    class FailFns(programs.Fns):
        """raiser(ids, kind): a map that raises an exception of a type the
        stages also use for their own control flow."""
        KINDS = {'index': IndexError, 'key': KeyError, 'value': ValueError,
                 'stop': StopIteration, 'assert': AssertionError}

        def raiser(self, ids, kind, stage):
            from ..terms import sid
            exc = self.KINDS[kind]

            def r(x):
                if sid(x) in ids:
                    raise exc(('user', sid(x)))
                return ('r', x)
            return r

    def consume(ds):
        got = []
        try:
            for x in ds:
                got.append(x)
            return got, None
        except BaseException as e:
            inner = e.__cause__ or e.__context__
            name = type(e).__name__
            if name == 'RuntimeError' and isinstance(inner, StopIteration):
                name = 'StopIteration'
            return got, name

    def check_errors(prog, m):
        """The same pipeline over a source stage that raises for one example:
        what the sequential pipeline does (delivers everything because the
        example is left out, or a prefix and then the error) the parallel
        stage does too - it never delivers a wrong example instead."""
        k = stable_hash(repr(prog))
        if k % 3:
            return
        if any(op[0] == 'batch' and op[2] for op in prog['ops']):
            # iteration has to evaluate the tail that drop_last drops, index
            # access (the pool path) does not: a difference by design
            return
        kind = ('index', 'key', 'value', 'stop', 'assert')[(k // 3) % 5]
        fail = (0, 1, max(0, prog['src'][1] - 1), 2)[(k // 15) % 4]
        fprog = {'src': prog['src'], 'ops': [('mapfail', (fail,), kind)] + list(prog['ops'])}
        st, mf = programs.classify(fprog)
        if st != 'ok' or not mf.finite:
            return
        try:
            with ob.watchdog(20):
                def outcome(mk):
                    try:
                        return consume(mk())
                    except BaseException as e:
                        inner = e.__cause__ or e.__context__
                        name = type(e).__name__
                        if name == 'RuntimeError' and isinstance(inner, StopIteration):
                            name = 'StopIteration'
                        return [], 'construction:' + name
                seq = outcome(lambda: programs.build(ld, fprog, FailFns()))
                for name, wrap, needs_index in variants:
                    if 'Profiling' in name or 'map(g' in name:
                        continue
                    if needs_index and not (getattr(mf, 'findexable', mf.indexable)
                                            and mf.sized and mf.copyable):
                        continue
                    got = outcome(lambda: wrap(programs.build(ld, fprog, FailFns())))
                    res.count('pipeline_error_transparency_comparisons')
                    res.case(('pipe-err', repr(fprog), name), True)
                    if got[1] != seq[1] or got[0] != seq[0][:len(got[0])] or \
                            (seq[1] is None and got[0] != seq[0]):
                        res.violation('delivered-sequence-differs',
                                      {'prog': fprog, 'stage': name, 'user_error': kind},
                                      {'sequential': seq, 'parallel': got},
                                      sig={'entry': 'pipeline', 'stage': name.split('(')[0],
                                           'error_path': True})
        except ob.Watchdog:
            res.inconclusive_because(f'watchdog on {fprog!r}')

    for prog in progs():
        status, m = programs.classify(prog)
        if status != 'ok' or not m.finite or m.n < 1:
            continue
        check_errors(prog, m)
        case = {'prog': prog}
        try:
            with ob.watchdog(20):
                want = list(programs.build(ld, prog))
                for name, wrap, needs_index in variants:
                    if needs_index and not (getattr(m, 'findexable', m.indexable)
                                            and m.sized and m.copyable):
                        continue
                    if ('copy()' in name or 'Profiling' in name) and shared_random(prog):
                        # a copy splits the two references to one reshuffle
                        # (known finding C13-copy-splits-shared-reshuffle):
                        # about copy(), not about the parallel stage
                        continue
                    base = programs.build(ld, prog)
                    # the plain twin, epoch by epoch (matters for seeded shuffles)
                    twin = programs.build(ld, prog)
                    e1, e2 = list(twin), list(twin)
                    if 'map(g' in name:
                        e1, e2 = [('g', v) for v in e1], [('g', v) for v in e2]
                    ref = e1
                    try:
                        ds = wrap(base)
                        if stable_hash(repr(prog)) % 2:
                            # an iterator that is requested but never started
                            # (iter(ds) dropped, zip([], ds)) is not an epoch
                            it0 = iter(ds)
                            del it0
                            for _ in zip([], ds):
                                pass
                            res.count('unstarted_iterators_before_the_epochs')
                        got = list(ds)
                        got2 = list(ds)
                    except BaseException as e:
                        res.violation('parallel-stage-refused-supported-pipeline',
                                      {**case, 'stage': name}, repr(e)[:200],
                                      sig={'stage': name.split('(')[0],
                                           'exc': type(e).__name__})
                        continue
                    res.count('pipeline_transparency_comparisons')
                    res.case(('pipe', repr(prog), name), m.n >= 2)
                    if got != e1 or got2 != e2:
                        res.violation('delivered-sequence-differs',
                                      {**case, 'stage': name},
                                      {'delivered': got, 'second': got2, 'want': e1,
                                       'want_second': e2},
                                      sig={'entry': 'pipeline', 'stage': name.split('(')[0]})
                        continue
                    if m.sized:
                        try:
                            ln = len(ds)
                        except BaseException:
                            ln = None
                        if ln != len(ref):
                            res.violation('len-differs', {**case, 'stage': name},
                                          {'len': ln, 'want': len(ref)},
                                          sig={'entry': 'pipeline'})
                    # key iteration, three epochs over one object, against the
                    # plain twin's key iteration (fresh, equally seeded builds)
                    if 'Profiling' in name:
                        continue
                    twin = programs.build(ld, prog)
                    ti = ob.guarded(lambda: [list(twin.items()) for _ in range(3)])
                    if ob.is_err(ti):
                        continue
                    if 'map(g' in name:
                        ti = [[(k, ('g', v)) for k, v in ep] for ep in ti]
                    dk = wrap(programs.build(ld, prog))
                    gi = ob.guarded(lambda: [list(dk.items()) for _ in range(3)])
                    if ob.is_err(gi) and m.labelstate != 'unique':
                        # keyed pool prefetch fetches by key: over duplicated
                        # keys it refuses loudly (C03 allows that)
                        res.count('keyed_iteration_over_duplicated_keys_refused')
                        continue
                    res.count('keyed_pipeline_transparency_comparisons')
                    if gi != ti:
                        res.violation('delivered-sequence-differs',
                                      {**case, 'stage': name, 'keyed': True},
                                      {'delivered_epochs': gi, 'want_epochs': ti},
                                      sig={'entry': 'pipeline', 'stage': name.split('(')[0],
                                           'keyed': True})
        except ob.Watchdog:
            res.inconclusive_because(f'watchdog on {prog!r}')


def run_schedpipe(spec, res):
    """Pool prefetch / parallel map over pipelines whose stages keep state per
    object (concatenations, tiles, caches, slices, items ...), under the
    controlled scheduler with *all* of core.py traced: the workers share one
    frozen copy of the pipeline, so every line of every stage is a point where
    another worker may run."""
    import random
    from .. import programs
    e = conc.env()
    ld, core, pu = e['ld'], e['core'], e['pu']
    traced = {pu.__file__: None, core.__file__: None}
    rng = rng_for(spec['seed'], PROPERTY, spec['name'])
    from ..terms import Fn
    tails = [
        [('concat', 'self')], [('tile', 3)], [('concat3', 'dict', 'method')],
        [('concat', 'selfmap'), ('batch', 2, False)], [('tile', 2), ('batch', 3, True)],
        [('cache',)], [('map', 'f'), ('cache',), ('map', 'g')],
        [('intersperse', 'selfmap')], [('zip', 'selfmap')], [('items',)],
        [('slice', 'slice', (None, None, -1)), ('concat', 'self')],
        [('key_zip', 'selfmap')], [('batch', 2, False), ('concat', 'self')],
        [('shuffle', 1), ('tile', 2)], [('sort', True), ('concat', 'selfmap')],
        [('concat', 'self'), ('concat', 'self')], [('concat3', 'dict', 'function'), ('items',)],
        [('concat', 'self'), ('cache',)],
    ]
    variants = [('prefetch(2,2)', lambda d: d.prefetch(2, 2, 't')),
                ('prefetch(3,3)', lambda d: d.prefetch(3, 3, 't')),
                ('prefetch(2,3)+catch', lambda d: d.prefetch(2, 3, 't',
                                                            catch_filter_exception=True))]
    cases = [(t, v) for t in tails for v in variants]
    for ci, (tail, (vname, wrap)) in enumerate(cases):
        if ci % spec['mod'] != spec['rem']:
            continue
        prog = {'src': ('dict', 3, 'pickle'), 'ops': list(tail)}
        status, m = programs.classify(prog)
        if status != 'ok' or not (getattr(m, 'findexable', m.indexable) and m.sized):
            continue
        want = m.values
        for i in range(spec['rnd_runs']):
            seed = rng.randrange(1 << 30)
            name = ('random', 'sticky', 'pct', 'youngest')[i % 4]
            out = {}

            def body(S):
                def slow(x):
                    S.preempt()
                    return x
                ds = wrap(programs.build(ld, prog).map(slow))
                out['got'] = list(ds)
                out['again'] = list(ds)
            case = {'prog': prog, 'stage': vname, 'schedule': (name, seed)}
            try:
                D.run(cs.chooser_for(name, random.Random(seed)), traced, body,
                      step_limit=400000)
            except D.Deadlock as dl:
                res.violation('iteration-never-completes', case, {'blocked': dl.args[0]},
                              sig={'entry': 'pipeline', 'harness': 'scheduler'})
                continue
            except D.StepLimit:
                res.inconclusive_because(f'step limit in {case!r}')
                continue
            except BaseException as exc:
                res.violation('parallel-stage-refused-supported-pipeline', case,
                              repr(exc)[:200],
                              sig={'stage': vname.split('(')[0], 'harness': 'scheduler',
                                   'exc': type(exc).__name__})
                continue
            S = D.S
            res.count('scheduled_pipeline_executions')
            res.count('choice_points', S.nchoices)
            res.case(('schedpipe', repr(prog), vname, tuple(c[1] for c in S.choices[:200])),
                     S.max_enabled >= 2)
            if out.get('got') != want or out.get('again') != want:
                res.violation('delivered-sequence-differs', case,
                              {'delivered': out.get('got'), 'second': out.get('again'),
                               'want': want},
                              sig={'entry': 'pipeline', 'harness': 'scheduler',
                                   'stage': vname.split('(')[0]})
                break


def run_serial(spec, res):
    """backend=False: the serial fallback of lazy_parallel_map."""
    e = conc.env(shim=False)
    pu = e['pu']
    for n in range(0, 7):
        for b in (1, 2, 5):
            calls = []
            got = list(pu.lazy_parallel_map(lambda x: (calls.append(x), ('f', x))[1],
                                            iter(range(n)), backend=False,
                                            buffer_size=b, max_workers=1))
            res.case(('serial', n, b), n >= 2)
            res.count('serial_backend_executions')
            if got != [('f', i) for i in range(n)] or calls != list(range(n)):
                res.violation('delivered-sequence-differs',
                              {'scenario': {'entry': 'lpm', 'backend': False, 'n': n, 'b': b}},
                              {'delivered': got, 'calls': calls},
                              sig={'entry': 'lpm', 'backend': 'serial'})


def finalize(res, tier):
    extra = cs.finalize_common(res)
    for k in ('real_thread_executions', 'process_pool_executions', 'dfs_scenarios',
              'yield_injection_line_events'):
        if res.counters.get(k, 0) == 0:
            res.inconclusive_because(f'{k} is zero')
    if res.counters.get('executions_with_out_of_order_completion', 0) == 0:
        res.inconclusive_because('no schedule completed tasks out of order')
    extra['preemption_bound'] = LIMITS[tier]['dfs_bound']
    return extra


def replay(case, res):
    from ..common import unjson
    if 'prog' in case:
        return
    sc = case['scenario']
    if sc.get('backend') is not None:
        return
    e = conc.env()
    r = conc.run(sc, D.replay_chooser(case.get('choices', [])))
    conc.judge_transparent(sc, r, res, e['ld'])
