"""C10 - memory cache: transparent, computes each example once, freezes it.

History monitor.  The upstream function returns ("v", id, call_no) with a fresh
call_no per call, so every value that comes back names the computation it came
from.  psutil.virtual_memory is scripted: `available` drops below the threshold
at a chosen history step and stays there.

Judged after every step, from behaviour only (never through ds._cache):
  wrong-example      a value for another example id
  changed            an example computed while caching was allowed comes back
                     with another call_no than its first computation
  recomputed         such an example was computed a second time
  cached-after-threshold   an example first computed after the threshold was
                     crossed comes back with a call_no of an earlier step
  invented           a value the pipeline never produced
Eager caching (lazy=False) must snapshot content and order at call time.
"""
import itertools
import collections

import numpy as np

from ..common import import_lazy_dataset, exc_sig, rng_for

PROPERTY = 'C10'
LEVEL = 'exploration'
RULE = ('a case is (n, history of access steps, step at which free memory '
        'drops or never); exhaustive histories up to length L over 3 examples '
        'x every crossing step, random histories of length 40 over 6 examples; '
        'non-trivial iff some example was requested at least twice; distinct by '
        '(n, history, crossing)')
ASSUMPTIONS = ['psutil.virtual_memory is replaced by a scripted reading in the '
               'harness process', 'no two concurrent requests for one index']
SHARD_TIMEOUT = {'quick': 300, 'thorough': 3000}
LIMITS = {'quick': dict(L=2, nrand=900), 'thorough': dict(L=3, nrand=4000)}

GB = 1024 ** 3
svmem = collections.namedtuple('svmem', 'total available')


class Mem:
    def __init__(self):
        self.avail = 16 * GB
        self.polls = 0

    def __call__(self):
        self.polls += 1
        return svmem(32 * GB, self.avail)


MEM = Mem()


def install_mem():
    import psutil
    psutil.virtual_memory = MEM


KINDS = ('idx', 'neg', 'np', 'key', 'slice', 'iter', 'part', 'copy', 'pf2', 'pf1',
         'items', 'negslice', 'via', 'nested')
# 'nested': an iteration that is suspended after some examples while the same
# cache is read by index, from the end, and completely through a copy; then the
# iteration goes on
# 'via': a full iteration through one of the copying consumption paths of
# vlib/vias.py (copy, frozen copy, lazy apply, profiling wrapper ...): they all
# share the one cache
from ..vias import COPYING, through


def steps_for(n):
    out = []
    for h in (0, -1):
        for kind in KINDS:
            if kind in ('iter', 'copy', 'pf2', 'pf1', 'items'):
                out.append((kind, 0, h))
            elif kind == 'via':
                for i in range(len(COPYING)):
                    if (i + h) % 2 == 0 or n > 3:
                        out.append((kind, i, h))
            else:
                for i in range(n):
                    out.append((kind, i, h))
    return out


class World:
    def __init__(self, ld, n, keep='8 GB', upstream='map'):
        self.ld = ld
        self.n = n
        self.keys = [f'k{i}' for i in range(n)]
        self.counter = itertools.count()
        self.produced = []                     # (id, call_no) in order
        MEM.avail = 16 * GB

        # 'unstorable': example 1 cannot be serialised (it carries a generator);
        # every access to it is refused, all other examples are unaffected
        self.bad = 1 if upstream == 'unstorable' and n > 1 else None

        def up(x):
            c = next(self.counter)
            self.produced.append((x, c))
            if x == self.bad:
                return ('v', x, c, [c], (i for i in ()), 'shared-label')
            # a tuple example with a mutable member: what the consumer does to
            # a value it was handed must not reach the cached copy
            return ('v', x, c, [c], 'shared-label')[:4 if upstream != 'unstorable' else 5]
        src = ld.new(dict(zip(self.keys, range(n))))
        base = src.map(up)
        if upstream == 'map-slice':
            base = base[::-1][::-1]
        self.base = base.cache(keep_mem_free=keep)
        # a neighbour: a second cache of the same shape (same keys, same
        # indices) over another pipeline; each cache serves its own pipeline
        self.nb_calls = collections.Counter()

        def up_nb(x):
            self.nb_calls[x] += 1
            return ('nb', x, self.nb_calls[x])
        self.neighbour = ld.new(dict(zip(self.keys, range(n)))).map(up_nb).cache(
            keep_mem_free=keep)
        self.handles = [self.base]
        self.frozen = None        # ids computed before the crossing
        self.first = {}

    def cross(self):
        MEM.avail = 7 * GB
        self.polls_at_cross = MEM.polls
        self.frozen = {i for i, _ in self.produced}

    def do(self, step):
        """Returns list of (expected id, value)."""
        kind, i, h = step
        n = self.n
        hd = self.handles[h]
        if kind == 'idx':
            return [(i, hd[i])]
        if kind == 'neg':
            return [(i, hd[i - n])]
        if kind == 'np':
            return [(i, hd[np.int64(i)])]
        if kind == 'key':
            return [(i, hd[self.keys[i]])]
        if kind == 'slice':
            return list(zip(range(n)[i:], hd[i:]))
        if kind == 'negslice':
            idx = [-(j + 1) for j in range(i + 1)]
            return list(zip([n + j for j in idx], hd[idx]))
        if kind == 'iter':
            return list(enumerate(hd))
        if kind == 'part':
            return list(zip(range(i), hd))
        if kind == 'items':
            return [(int(k[1:]), v) for k, v in hd.items()]
        if kind == 'copy':
            self.handles.append(hd.copy())
            return []
        if kind == 'pf2':
            return list(enumerate(hd.prefetch(2, 4, 't')))
        if kind == 'pf1':
            return list(enumerate(hd.prefetch(1, 2)))
        if kind == 'nested':
            out = []
            for pos, v in enumerate(hd):
                out.append((pos, v))
                if pos == i % n:
                    j = (pos + 2) % n
                    out.append((j, hd[j]))
                    out.append((n - 1, hd[-1]))
                    out += list(enumerate(hd.copy()))
            return out
        if kind == 'via':
            import warnings
            with warnings.catch_warnings():
                warnings.simplefilter('ignore')
                return list(enumerate(through(self.ld, hd, COPYING[i % len(COPYING)])))
        raise ValueError(kind)


def run_history(ld, n, hist, cross_at, res, upstream='map', recover_at=None):
    """`recover_at`: step before which free memory is plentiful again (another
    process released it); the decision taken at the crossing stands: "once the
    free-memory threshold is crossed no further examples are cached"."""
    case = {'n': n, 'history': [list(s) for s in hist], 'cross_at': cross_at,
            'upstream': upstream, 'recover_at': recover_at}
    w = World(ld, n, upstream=upstream)
    requested = collections.Counter()
    for s, step in enumerate(hist):
        if cross_at is not None and s == cross_at:
            w.cross()
        if recover_at is not None and s == recover_at and w.frozen is not None:
            MEM.avail = 16 * GB
            if MEM.polls == w.polls_at_cross:
                # nobody looked at the memory while it was short (no miss, or
                # the only access was refused before it got that far): for the
                # cache the threshold was never crossed
                w.frozen = None
                res.count('memory_dips_nobody_could_see')
            else:
                res.count('histories_with_memory_recovering_after_the_threshold')
        produced_before = len(w.produced)
        try:
            got = w.do(step)
        except BaseException as e:
            if w.bad is not None and type(e).__name__ in ('TypeError', 'PicklingError',
                                                          'AttributeError'):
                # the unstorable example was touched: refused, nothing judged
                res.count('unstorable_example_refusals')
                continue
            res.violation('access-raised', {**case, 'step': s}, exc_sig(e),
                          sig={'access': step[0]})
            break
        res.count('accesses', len(got))
        sig = {'access': step[0], 'after_threshold': w.frozen is not None}
        if recover_at is not None and s >= recover_at and w.frozen is not None:
            sig['memory_recovered'] = True
        bad = False
        for want_id, v in got:
            requested[want_id] += 1
            if want_id == w.bad and w.bad is not None:
                # handed out without being stored (caching switched off by the
                # memory threshold): only its identity is checked
                if not (isinstance(v, tuple) and v[:2] == ('v', want_id)):
                    res.violation('wrong-example', {**case, 'step': s},
                                  {'wanted': want_id, 'got': repr(v)[:100]}, sig=sig)
                    bad = True
                    break
                continue
            if not (isinstance(v, tuple) and len(v) == (5 if w.bad is not None else 4)
                    and v[0] == 'v'):
                res.violation('invented', {**case, 'step': s}, {'value': v}, sig=sig)
                bad = True
                break
            if v[1] != want_id:
                res.violation('wrong-example', {**case, 'step': s},
                              {'wanted': want_id, 'got': v}, sig=sig)
                bad = True
                break
            if (v[1], v[2]) not in w.produced:
                res.violation('invented', {**case, 'step': s}, {'value': v}, sig=sig)
                bad = True
                break
            if v[3] != [v[2]]:
                res.violation('handed-out-value-was-mutated-in-cache', {**case, 'step': s},
                              {'got': v}, sig=sig)
                bad = True
                break
            first_no = next(c for i, c in w.produced if i == want_id)
            cacheable = w.frozen is None or want_id in w.frozen
            if cacheable:
                if v[2] != first_no:
                    res.violation('changed', {**case, 'step': s},
                                  {'first': first_no, 'got': v}, sig=sig)
                    bad = True
                    break
            else:
                res.count('uncached_accesses_after_threshold')
                fresh = any(i == want_id and c == v[2]
                            for i, c in w.produced[produced_before:])
                if not fresh:
                    res.violation('cached-after-threshold', {**case, 'step': s},
                                  {'got': v, 'produced_this_step': w.produced[produced_before:]},
                                  sig=sig)
                    bad = True
                    break
        if bad:
            break
        for _, v in got:
            v[3].append('consumer-was-here')
        if n and w.frozen is None:
            j = s % n
            nv = (w.neighbour[j], w.neighbour[w.keys[j]]) if s % 2 else \
                (w.neighbour[j - n], w.neighbour[j])
            res.count('neighbour_cache_accesses', 2)
            if nv != (('nb', j, 1), ('nb', j, 1)):
                res.violation('caches-share-a-store', {**case, 'step': s},
                              {'neighbour_returned': nv, 'want': ('nb', j, 1)}, sig=sig)
                break
        # compute-once for everything that was allowed to be cached
        cnt = collections.Counter(i for i, _ in w.produced)
        for i, c in cnt.items():
            cacheable = (w.frozen is None or i in w.frozen) and i != w.bad
            if cacheable and c > 1:
                res.violation('recomputed', {**case, 'step': s},
                              {'id': i, 'computations': c}, sig=sig)
                bad = True
                break
        if bad:
            break
    # successors: a copy of the cache survives while the cache it was copied
    # from is dropped; caches built afterwards over OTHER pipelines (their
    # objects may get the memory addresses just released) serve their own
    # pipeline
    if n and w.frozen is None and len(hist) % 4 == 0:
        survivor = w.handles[0].copy()
        w.handles = []
        w.base = None
        succ_calls = []

        def up_succ(x):
            succ_calls.append(x)
            return ('succ', x)
        successors = []
        for t in range(24):
            nb = ld.new(dict(zip(w.keys, range(n)))).map(up_succ).cache(keep_mem_free='8 GB')
            successors.append(nb)
            j = t % n
            got = nb[j]
            res.count('successor_cache_accesses')
            if got != ('succ', j):
                res.violation('caches-share-a-store', {**case, 'successor': t},
                              {'successor_returned': got, 'want': ('succ', j)},
                              sig={'access': 'successor', 'after_threshold': False})
                break
        del survivor, successors
    res.case((n, tuple(hist), cross_at, upstream),
             any(c >= 2 for c in requested.values()))


def check_eager(ld, n, variant, res):
    case = {'eager': variant, 'n': n}
    res.case(('eager', variant, n), n >= 2)
    counter = itertools.count()
    produced = []

    def up(x):
        c = next(counter)
        produced.append((x, c))
        return ('v', x, c)
    keys = [f'k{i}' for i in range(n)]
    src = ld.new(dict(zip(keys, range(n))))
    sig = {'access': 'eager', 'variant': variant}
    try:
        if variant == 'indexable':
            e = src.map(up).cache(lazy=False)
        elif variant == 'filtered':
            e = src.map(up).filter(lambda v: v[1] % 3 != 1).cache(lazy=False)
        elif variant == 'list':
            e = ld.new(list(range(n))).map(up).cache(lazy=False)
        elif variant == 'shuffled-once':
            e = src.shuffle(False, rng=np.random.RandomState(n)).map(up).cache(lazy=False)
    except BaseException as ex:
        res.violation('eager-cache-raised', case, exc_sig(ex), sig=sig)
        return
    snap = list(produced)
    reads = [list(e), list(e), [e[i] for i in range(len(e))], list(e.copy()),
             list(e[::-1])[::-1]]
    if variant in ('indexable', 'filtered', 'shuffled-once'):
        reads.append([v for _, v in e.items()])
        reads.append([e[k] for k in e.keys()])
    res.count('eager_reads', len(reads))
    if len(produced) != len(snap):
        res.violation('eager-cache-recomputed', case,
                      {'calls_after_snapshot': len(produced) - len(snap)}, sig=sig)
        return
    # one computation per example at snapshot time (from_dataset may do a
    # second pass only when items() is undefined half-way; not the case here)
    want = [('v', i, c) for i, c in snap]
    if variant == 'filtered':
        want = [v for v in want if v[1] % 3 != 1]
    ids = [v[1] for v in want]
    if len(set(ids)) != len(ids):
        # keep the last computation per id in order of first appearance
        res.count('eager_double_pass')
        last = {}
        for v in want:
            last[v[1]] = v
        want = [last[i] for i in dict.fromkeys(ids)]
    for r in reads:
        if r != want:
            res.violation('eager-cache-not-a-snapshot', case, {'read': r, 'want': want},
                          sig=sig)
            return


FALSY = [None, 0, '', [], {}, False, 0.0, ()]


def check_big_example(ld, res):
    """One example that is larger than the head room above the threshold
    (free memory 8 GiB + 1 MiB, keep_mem_free 8 GB, a 4.8 MB array among small
    ones): the reported free memory never reaches the threshold, so every
    example - the big one included, and all that follow - is computed once,
    through the dataset, its copy and a thread prefetch."""
    for kind in ('ndarray', 'bytes', 'list-of-floats'):
        for big_at in (0, 2, 5):
            MEM.avail = 8 * GB + (1 << 20)
            calls = collections.Counter()

            def up(x, calls=calls, kind=kind, big_at=big_at):
                calls[x] += 1
                if x != big_at:
                    return (x, calls[x])
                if kind == 'ndarray':
                    return np.full(600_000, float(x))
                if kind == 'bytes':
                    return bytes(5_000_000)
                return [float(x)] * 300_000
            case = {'big_example': kind, 'at': big_at, 'n': 6, 'head_room': '1 MiB'}
            res.case(('big', kind, big_at), True)
            import warnings
            try:
                with warnings.catch_warnings(record=True) as caught:
                    warnings.simplefilter('always')
                    ds = ld.new(list(range(6))).map(up).cache(keep_mem_free='8 GB')
                    list(ds)
                    list(ds.copy())
                    [ds[i] for i in (5, 4, 3, 2, 1, 0)]
                    list(ds.prefetch(2, 2, 't'))
                    list(ds)
            except BaseException as e:
                res.violation('access-raised', case, exc_sig(e), sig={'access': 'big-example'})
                continue
            finally:
                MEM.avail = 16 * GB
            res.count('big_example_histories')
            if any(c != 1 for c in calls.values()) or sorted(calls) != list(range(6)):
                res.violation('recomputed', case,
                              {'computations': dict(calls),
                               'warnings': [str(w.message)[:80] for w in caught]},
                              sig={'access': 'big-example', 'after_threshold': False})


def check_falsy(ld, res):
    """Examples whose value is None / falsy are cached like any other."""
    n = len(FALSY)
    for access in ('idx', 'neg', 'key', 'iter', 'slice', 'prefetch'):
        calls = []

        def up(x):
            calls.append(x)
            return FALSY[x]
        keys = [f'k{i}' for i in range(n)]
        c = ld.new(dict(zip(keys, range(n)))).map(up).cache(keep_mem_free='8 GB')
        case = {'falsy_values': True, 'access': access}
        res.case(('falsy', access), True)
        got = []
        for rep in range(3):
            if access == 'idx':
                got.append([c[i] for i in range(n)])
            elif access == 'neg':
                got.append([c[i - n] for i in range(n)])
            elif access == 'key':
                got.append([c[k] for k in keys])
            elif access == 'iter':
                got.append(list(c))
            elif access == 'slice':
                got.append(list(c[::-1])[::-1])
            else:
                got.append(list(c.prefetch(2, 3, 't')))
        res.count('falsy_value_accesses', 3 * n)
        if any(g != FALSY for g in got):
            res.violation('wrong-example', case, {'got': got}, sig={'access': access,
                                                                   'values': 'falsy'})
        elif sorted(calls) != list(range(n)):
            res.violation('recomputed', case, {'upstream_calls': calls},
                          sig={'access': access, 'values': 'falsy'})


def run_sched(spec, res):
    """The cache shared by the copies that thread-prefetch workers use, under
    the controlled scheduler: every schedule must deliver the first computation
    of every example, in order, and compute each example once."""
    import random
    from .. import conc, detsched as D, concshards as cs
    e = conc.env()
    ld, core = e['ld'], e['core']
    traced = dict(e['traced'])
    traced[core.__file__] = tuple(traced[core.__file__]) + ('CacheDataset.', '_CacheWrapper.')
    rng = rng_for(spec['seed'], PROPERTY, spec['name'])

    def make_body(n, b, w, out):
        def body(S):
            calls = []

            def fn(x):
                S.preempt()
                calls.append(x)
                S.preempt()
                return ('v', x, len(calls))
            ds = ld.new(list(range(n))).map(fn).cache()
            p = ds.prefetch(w, b, 't')
            first = list(p)
            second = list(p)
            third = [ds[i - n] for i in range(n)]
            out.update(first=first, second=second, third=third, calls=list(calls))
        return body

    def one(n, b, w, chooser, label):
        out = {}
        case = {'n': n, 'b': b, 'w': w, 'schedule': label, 'cache_below_pool_prefetch': True}
        try:
            D.run(chooser, traced, make_body(n, b, w, out))
        except D.Deadlock as dl:
            res.violation('deadlock', case, {'blocked': dl.args[0]}, sig={'access': 'sched'})
            return
        S = D.S
        res.count('scheduled_executions')
        res.count('scheduled_choice_points', S.nchoices)
        res.case(('sched', n, b, w, tuple(c[1] for c in S.choices)), S.max_enabled >= 2)
        sig = {'access': 'thread-prefetch', 'harness': 'scheduler'}
        if not (out['first'] == out['second'] == out['third']):
            res.violation('changed', case, out, sig=sig)
        elif [v[1] for v in out['first']] != list(range(n)):
            res.violation('wrong-example', case, out, sig=sig)
        elif sorted(out['calls']) != list(range(n)):
            res.violation('recomputed', case, out, sig=sig)
    for n, b, w in ((3, 2, 2), (4, 2, 2), (4, 3, 3)):
        for i in range(spec['sched_runs']):
            seed = rng.randrange(1 << 30)
            name = cs.CHOOSERS[i % len(cs.CHOOSERS)]
            one(n, b, w, cs.chooser_for(name, random.Random(seed)), (name, seed))
    dfs = D.DFS(2, max_runs=spec['sched_dfs_cap'])

    def once(ch):
        one(3, 2, 2, ch, 'dfs')
    for _ in dfs.explore(once):
        pass


class _Cancelled(BaseException):
    pass


def run_race(spec, res):
    """Real threads: two pool-prefetch workers ask ONE cold cache for the same
    example at the same time (the cache interspersed with itself, a slow
    pipeline).  Whatever the cache does about the race, every consumer gets a
    value the pipeline produced for that example - its own object, never a
    placeholder - and an example whose pipeline raises (also a BaseException
    that the prefetch is told to filter) is left out for both."""
    import time
    ld = import_lazy_dataset()
    for n in (1, 2, 4):
        for failing in (None, 0, n - 1):
            for store in ('cache', 'diskcache'):
                for rep in range(spec.get('race_reps', 2)):
                    case = {'race_on_cold_cache': True, 'n': n, 'raises_for': failing,
                            'store': store}
                    res.case(('race', n, failing, store, rep), True)
                    calls = collections.Counter()

                    def fn(x, calls=calls, failing=failing):
                        time.sleep(0.02)
                        calls[x] += 1
                        if x == failing:
                            raise _Cancelled(x)
                        return {'id': x, 'l': [x]}
                    try:
                        base = ld.new(list(range(n))).map(fn)
                        c = base.cache() if store == 'cache' else base.diskcache()
                        out = list(c.intersperse(c).prefetch(
                            2, 2, 't', catch_filter_exception=_Cancelled))
                    except BaseException as e:
                        res.violation('access-raised', case, exc_sig(e),
                                      sig={'access': 'race', 'harness': 'real-threads'})
                        continue
                    res.count('cold_cache_races_checked')
                    want = [i for i in range(n) if i != failing for _ in (0, 1)]
                    ok = [isinstance(v, dict) and v.get('id') == w and v.get('l') == [w]
                          for v, w in zip(out, want)]
                    if len(out) != len(want) or not all(ok):
                        res.violation('invented' if any(v is None for v in out)
                                      else 'wrong-example', case,
                                      {'delivered': repr(out)[:300], 'want_ids': want},
                                      sig={'access': 'race', 'harness': 'real-threads'})
                        continue
                    # what one consumer does to its example is not seen by the other
                    for v in out[::2]:
                        v['l'].append('mutated')
                    if len({id(v) for v in out}) != len(out) or \
                            any(v['l'] != [v['id']] for v in out[1::2]):
                        res.violation('handed-out-value-was-mutated-in-cache', case,
                                      {'delivered_after_mutating_every_other': repr(out)[:300]},
                                      sig={'access': 'race', 'harness': 'real-threads'})


def shards(tier, seed):
    lim = LIMITS[tier]
    out = [{'name': 'sched', 'what': 'sched',
            'sched_runs': 60 if tier == 'quick' else 1500,
            'sched_dfs_cap': 400 if tier == 'quick' else 20000}]
    J = 12
    for j in range(J):
        out.append({'name': f'exh{j}', 'what': 'exh', 'mod': J, 'rem': j, **lim})
    for j in range(3):
        out.append({'name': f'rand{j}', 'what': 'rand', 'part': j, **lim})
    out.append({'name': 'eager', 'what': 'eager', **lim})
    out.append({'name': 'race', 'what': 'race', 'race_reps': 2 if tier == 'quick' else 20})
    return out


def run_shard(spec, res):
    if spec['what'] == 'sched':
        return run_sched(spec, res)
    if spec['what'] == 'race':
        return run_race(spec, res)
    ld = import_lazy_dataset()
    install_mem()
    rng = rng_for(spec['seed'], PROPERTY, spec['name'])
    if spec['what'] == 'exh':
        steps = steps_for(3)
        cnt = 0
        for L in range(1, spec['L'] + 1):
            for hist in itertools.product(steps, repeat=L):
                # handle -1 only means something after a copy
                cnt += 1
                if cnt % spec['mod'] != spec['rem']:
                    continue
                for cross in [None] + list(range(L)):
                    run_history(ld, 3, hist, cross, res)
                    if cross is not None and cross + 1 < L:
                        run_history(ld, 3, hist, cross, res, recover_at=cross + 1)
        res.sample({'n': 3, 'history': [['neg', 2, 0], ['idx', 2, 0]], 'cross_at': None,
                    'step_format': '(access kind, index, handle 0=original -1=latest copy)'})
    elif spec['what'] == 'rand':
        steps = steps_for(6)
        for t in range(spec['nrand'] // 3):
            hist = tuple(rng.choice(steps) for _ in range(40))
            cross = rng.choice([None, 0, 3, 10, 25])
            recover = None
            if cross is not None and t % 2:
                recover = cross + rng.choice((1, 4, 11))
            run_history(ld, 6, hist, cross, res,
                        upstream=rng.choice(('map', 'map-slice', 'unstorable')),
                        recover_at=recover)
        res.sample({'n': 6, 'history': [list(s) for s in hist[:8]], 'cross_at': cross})
    else:
        for n in range(0, 8):
            for variant in ('indexable', 'filtered', 'list', 'shuffled-once'):
                check_eager(ld, n, variant, res)
        check_falsy(ld, res)
        check_big_example(ld, res)
    res.count('memory_polls', MEM.polls)


def finalize(res, tier):
    for k in ('accesses', 'uncached_accesses_after_threshold', 'eager_reads',
              'memory_polls', 'scheduled_executions'):
        if res.counters.get(k, 0) == 0:
            res.inconclusive_because(f'monitor {k} never evaluated')
    return {'exhaustive_history_length': LIMITS[tier]['L']}


def replay(case, res):
    ld = import_lazy_dataset()
    install_mem()
    if 'big_example' in case:
        return check_big_example(ld, res)
    if 'eager' in case:
        check_eager(ld, case['n'], case['eager'], res)
    else:
        run_history(ld, case['n'], tuple(tuple(s) for s in case['history']),
                    case['cross_at'], res, upstream=case.get('upstream', 'map'),
                    recover_at=case.get('recover_at'))
