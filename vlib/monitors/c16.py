"""C16 - combinators obey their algebraic laws.

Metamorphic monitor.  For a random prefix P (a pipeline program), a law
(lhs, rhs) and a random continuation Q, the observations of Q(lhs(P)) and
Q(rhs(P)) must agree on every capability both sides offer.  No reference
interpreter takes part in the oracle (the program generator only uses it to
avoid building prefixes that cannot be iterated at all).
"""
import itertools

import numpy as np

from .. import programs, observe as ob
from ..common import import_lazy_dataset, rng_for, exc_sig
from ..observe import is_err
from ..terms import Fn, Pred, SortKey, ScriptedRandomState, scripted_perm, sid
from .c01 import fix_prog

PROPERTY = 'C16'
LEVEL = 'exploration'
RULE = ('a case is (prefix program P, law, continuation Q); P: every program of '
        'depth <= 1 (quick) / 2 (thorough) plus random ones of depth <= 4, each '
        'combined with 16 seeded laws (quick) / every law (thorough) of ~100 law '
        'instances and 2-4 continuations; non-trivial '
        'iff both sides iterate and deliver >= 1 example; distinct by (P, law, Q)')
ASSUMPTIONS = ['laws as listed in the statement; observations are compared only '
               'on capabilities both sides offer']
SHARD_TIMEOUT = {'quick': 600, 'thorough': 7000}
LIMITS = {'quick': dict(depths=(0, 1), nrand=600, nq=2, nlaws=16),
          'thorough': dict(depths=(0, 1, 2), nrand=40000, nq=4, nlaws=200)}

F, G = Fn('f'), Fn('g')


def gf(x):
    return ('g', ('f', x))


class Inapplicable(Exception):
    pass


def need(c):
    if not c:
        raise Inapplicable


def n_of(ds):
    try:
        return len(ds)
    except BaseException:
        raise Inapplicable


def compose_indices(n, s1, s2):
    return list(range(n))[s1][s2]


SL = [slice(1, None), slice(None, -1), slice(None, None, 2), slice(None, None, -1),
      slice(None, None, -2), slice(0, 0), slice(-2, None)]


def laws(ld):
    """name -> (lhs, rhs); both take the dataset produced by the prefix."""
    L = {}
    for k in (1, 2, 3):
        L[f'batch{k}-unbatch=id'] = (lambda d, k=k: d.batch(k).unbatch(), lambda d: d)
    for k in (1, 2, 3):
        def lhs(d, k=k):
            need(d.indexable and 1 <= k <= n_of(d))
            return ld.concatenate(*d.split(k))
        L[f'concat-split{k}=id'] = (lhs, lambda d: (need(d.indexable), d)[1])
    # a list of datasets handed to a combining function belongs to the caller:
    # what the caller does to that list afterwards (reorder, pop, replace
    # entries - a cross-validation loop) does not reach the combination
    def meddle(parts):
        parts.reverse()
        parts.pop()
        parts[:] = [p.map(G) for p in parts]
    for k in (2, 3):
        for form in ('function', 'method'):
            def lhs(d, k=k, form=form):
                need(d.indexable and k <= n_of(d))
                parts = d.split(k)
                if form == 'function':
                    whole = ld.concatenate(parts)
                else:
                    rest = parts[1:]
                    whole = parts[0].concatenate(rest)
                    meddle(rest)
                meddle(parts)
                return whole
            L[f'concat-of-callers-list-{form}{k}=id'] = (
                lhs, lambda d, k=k: (need(d.indexable and k <= n_of(d)), d)[1])

    # a read that is refused is no use of the dataset: the keyed read of a
    # seeded reshuffle without keys (items(); the first attempt of new(ds),
    # which falls back to a plain pass) leaves the sequence of epochs alone
    def keyless(d):
        try:
            d.keys()
        except BaseException:
            return True
        return False

    def rs(d):
        return d.shuffle(True, rng=np.random.RandomState(7))

    def refused_first(d):
        need(d.indexable and n_of(d) >= 2 and keyless(d))
        s_ = rs(d)
        for _ in range(2):
            try:
                next(iter(s_.items()))
            except BaseException:
                continue
            raise Inapplicable()
        return s_
    L['refused-items-of-seeded-reshuffle=never-asked'] = (
        refused_first, lambda d: (need(d.indexable and n_of(d) >= 2 and keyless(d)), rs(d))[1])
    L['new-of-seeded-reshuffle=list-of-its-first-epoch'] = (
        lambda d: (need(d.indexable and n_of(d) >= 2 and keyless(d)), ld.new(rs(d)))[1],
        lambda d: (need(d.indexable and n_of(d) >= 2 and keyless(d)), ld.new(list(rs(d))))[1])
    L['new-of-mapped-seeded-reshuffle=list-of-its-first-epoch'] = (
        lambda d: (need(d.indexable and n_of(d) >= 2 and keyless(d)), ld.new(rs(d).map(G)))[1],
        lambda d: (need(d.indexable and n_of(d) >= 2 and keyless(d)),
                   ld.new(list(rs(d).map(G))))[1])

    def zl(d):
        need(d.indexable and n_of(d) >= 1)
        parts = [d, d.map(F)]
        whole = ld.zip(parts)
        meddle(parts)
        return whole
    L['zip-of-callers-list'] = (zl, lambda d: (need(d.indexable and n_of(d) >= 1),
                                                 d.zip(d.map(F)))[1])

    def il(d):
        need(d.indexable and n_of(d) >= 1)
        parts = [d, d.map(F)]
        whole = ld.intersperse(parts)
        meddle(parts)
        return whole
    L['intersperse-of-callers-list'] = (il, lambda d: (need(d.indexable and n_of(d) >= 1),
                                                        d.intersperse(d.map(F)))[1])
    for i, (s1, s2) in enumerate(itertools.product(SL, SL)):
        def lhs(d, s1=s1, s2=s2):
            need(d.indexable)
            n_of(d)
            return d[s1][s2]

        def rhs(d, s1=s1, s2=s2):
            need(d.indexable)
            return d[compose_indices(n_of(d), s1, s2)]
        L[f'slice-compose-{i}'] = (lhs, rhs)

    def idx_lhs(d):
        need(d.indexable and n_of(d) >= 2)
        return d[[0, -1, 0, 1]][[3, 0, -1]]

    def idx_rhs(d):
        need(d.indexable and n_of(d) >= 2)
        return d[[1, 0, 1]]
    L['indexlist-compose'] = (idx_lhs, idx_rhs)
    for i, s in enumerate(SL):
        L[f'map-slice-{i}'] = (lambda d, s=s: (need(d.indexable), d.map(F)[s])[1],
                               lambda d, s=s: (need(d.indexable), d[s].map(F))[1])
    # ... also for a function that is only defined on the selected examples
    # (it raises for every example the slice leaves out): map distributes over
    # slicing without evaluating what the slice excludes
    class Undefined(Exception):
        pass

    def partial_fn(d, s):
        need(d.indexable)
        n = n_of(d)
        need(n >= 3)
        sel = set(range(n)[s])
        inside = {sid(d[j]) for j in sel}
        outside = {sid(d[j]) for j in range(n) if j not in sel}
        need(outside and not (inside & outside))

        def fp(x):
            if sid(x) in outside:
                raise Undefined(sid(x))
            return ('f', x)
        return fp
    for i, s in enumerate((slice(1, None), slice(-2, None), slice(2, 4), slice(1, -1),
                           slice(None, None, 2), slice(None, 1, -1))):
        L[f'map-slice-partial-fn-{i}'] = (lambda d, s=s: d.map(partial_fn(d, s))[s],
                                          lambda d, s=s: d[s].map(partial_fn(d, s)))
    for seed in (1, 2):
        def lhs(d, seed=seed):
            need(d.indexable)
            n_of(d)
            return d.map(F).shuffle(False, rng=ScriptedRandomState(scripted_perm(seed)))

        def rhs(d, seed=seed):
            need(d.indexable)
            return d.shuffle(False, rng=ScriptedRandomState(scripted_perm(seed))).map(F)
        L[f'map-shuffle-{seed}'] = (lhs, rhs)
    for rev in (False, True):
        def lhs(d, rev=rev):
            need(d.indexable)
            ks = [(7 * sid(x)) % 211 for x in d]
            need(len(set(ks)) == len(ks))
            return d.map(F).sort(SortKey(), reverse=rev)

        def rhs(d, rev=rev):
            need(d.indexable)
            return d.sort(SortKey(), reverse=rev).map(F)
        L[f'map-sort-{rev}'] = (lhs, rhs)
    other = lambda: ld.new({'q0': 100, 'q1': 101})
    L['map-concat'] = (lambda d: d.map(F).concatenate(other().map(F)),
                       lambda d: d.concatenate(other()).map(F))
    L['map-concat-self'] = (lambda d: d.map(F).concatenate(d.map(F)),
                            lambda d: d.concatenate(d).map(F))
    for k in (1, 2, 3):
        L[f'map-batch{k}'] = (lambda d, k=k: d.map(F).batch(k),
                              lambda d, k=k: d.batch(k).batch_map(F))
    L['map-cache'] = (lambda d: (need(d.indexable), n_of(d), d.map(F).cache())[2],
                      lambda d: (need(d.indexable), n_of(d), d.cache().map(F))[2])
    L['map-map=map-compose'] = (lambda d: d.map(F).map(G), lambda d: d.map(gf))
    for r in (1, 2, 3):
        L[f'tile{r}=concat'] = (lambda d, r=r: d.tile(r),
                                lambda d, r=r: d.concatenate(*([d] * (r - 1))))
    # tile(r, shuffle=True) is the concatenation of r independently shuffled
    # copies (docstring of Dataset.tile); both sides draw from the global numpy
    # state, which is seeded equally before each side is built
    for r in (2, 3):
        for gs in (5, 6):
            def lhs(d, r=r, gs=gs):
                need(d.indexable and n_of(d) >= 3)
                np.random.seed(gs)
                return d.tile(r, shuffle=True)

            def rhs(d, r=r, gs=gs):
                need(d.indexable and n_of(d) >= 3)
                np.random.seed(gs)
                parts = [d.shuffle() for _ in range(r)]
                return parts[0].concatenate(*parts[1:])
            L[f'tile-shuffle{r}=concat-of-shuffles-{gs}'] = (lhs, rhs)
    for i, s in enumerate(SL[:3]):
        def lhs(d, s=s):
            need(d.indexable)
            n_of(d)
            return d[s].filter(Pred(2), lazy=False)

        def rhs(d, s=s):
            need(d.indexable)
            ks = list(d.keys())
            need(len(set(ks)) == len(ks))
            kept = set(d.filter(Pred(2), lazy=False).keys())
            sel = [k for k in d[s].keys() if k in kept]
            return d.filter(Pred(2), lazy=False)[sel] if sel else \
                d.filter(Pred(2), lazy=False)[[]]
        L[f'efilter-select-{i}'] = (lhs, rhs)

    def raise_unless(x):
        if not Pred(3)(x):
            raise ld.core.FilterException()
        return x
    from ..terms import TRUTH_STYLES, truthy
    for style in TRUTH_STYLES[1:]:
        def pred(x, style=style):
            return truthy(sid(x) % 3 != 0, style, sid(x))
        L[f'filter-lazy=eager-{style}-0'] = (
            lambda d, pred=pred: d.filter(pred),
            lambda d, pred=pred: (need(d.indexable), d.filter(pred, lazy=False))[1])
    L['filter-lazy=eager'] = (lambda d: d.filter(Pred(3)),
                              lambda d: (need(d.indexable), d.filter(Pred(3), lazy=False))[1])
    L['filter-lazy=catch'] = (lambda d: d.filter(Pred(3)),
                              lambda d: (need(d.indexable), n_of(d),
                                         d.map(raise_unless).catch())[2])
    return L


CONT = {
    'id': lambda d: d, 'map': lambda d: d.map(G), 'rev': lambda d: d[::-1],
    'tail': lambda d: d[1:], 'batch2': lambda d: d.batch(2),
    'items': lambda d: d.items(), 'filter': lambda d: d.filter(Pred(3)),
    'concat-self': lambda d: d.concatenate(d), 'copy': lambda d: d.copy(),
    'prefetch1': lambda d: d.prefetch(1, 2), 'cache': lambda d: d.cache(),
    'zip-self': lambda d: d.zip(d), 'tile2': lambda d: d.tile(2),
    'ecache': lambda d: d.cache(lazy=False), 'idx': lambda d: d[[0, -1]],
    'prefetcht': lambda d: d.prefetch(2, 2, 't'),
    'map-rev-batch3': lambda d: d.map(G)[::-1].batch(3),
}


def compare(a, b):
    """Aspects on which the two observations disagree although both sides offer
    the capability."""
    bad = []
    for k in ('iter1', 'iter2', 'again', 'len', 'keys', 'items', 'copy_iter'):
        x, y = a.get(k), b.get(k)
        if x is None or y is None or is_err(x) or is_err(y):
            continue
        if x != y:
            bad.append((k, x, y))
    if a.get('indexable') is True and b.get('indexable') is True and \
            'get' in a and 'get' in b:
        for i in a['get']:
            if i not in b['get']:
                continue
            x, y = a['get'][i][0], b['get'][i][0]
            if is_err(x) and is_err(y):
                continue
            # a refusal other than IndexError is a capability one side lacks
            # (e.g. items() over duplicated keys cannot be indexed), not a
            # different answer
            if (is_err(x) and x[1] != 'IndexError') or \
                    (is_err(y) and y[1] != 'IndexError'):
                continue
            if x != y:
                bad.append((f'get[{i}]', x, y))
                break
    for key in a.get('bykey', {}):
        x, y = a['bykey'][key], b.get('bykey', {}).get(key)
        if y is None or is_err(x) or is_err(y):
            continue
        if x != y:
            bad.append((f'bykey[{key}]', x, y))
            break
    return bad


def run_one(ld, L, prog, law, qname, res):
    case = {'prefix': prog, 'law': law, 'continuation': qname}
    lhs, rhs = L[law]
    q = CONT[qname]
    sides = []
    try:
        with ob.watchdog(10):
            for side in (lhs, rhs):
                base = programs.build(ld, prog)
                try:
                    d = side(base)
                except Inapplicable:
                    res.count('law_not_applicable')
                    return
                except BaseException as e:
                    sides.append(('!', type(e).__name__))
                    continue
                try:
                    d = q(d)
                except BaseException as e:
                    sides.append(('!', type(e).__name__))
                    continue
                sides.append(d)
            if any(is_err(s) for s in sides):
                if all(is_err(s) for s in sides):
                    res.count('both_sides_refuse')
                else:
                    res.count('one_side_refuses')
                    res.seen('one_side_refuses', f'{law.split("-")[0]}/{qname}')
                return
            finite = not any(op[0] == 'cycle' for op in prog['ops'])
            oa = ob.observe(sides[0], 40, finite=finite)
            obb = ob.observe(sides[1], 40, finite=finite)
    except ob.Watchdog:
        res.inconclusive_because(f'watchdog on {case!r}')
        return
    it = oa.get('iter1')
    nontrivial = not is_err(it) and not is_err(obb.get('iter1')) and len(it[0]) >= 1
    res.case((repr(prog), law, qname), nontrivial)
    res.count('law_instances_compared')
    res.seen('laws', law.rsplit('-', 1)[0] if law[-1].isdigit() else law)
    bad = compare(oa, obb)
    if not bad and 'partial-fn' in law:
        # one side evaluates an example the other (rightly) never touches
        ea, eb = oa.get('iter1'), obb.get('iter1')
        if is_err(ea) != is_err(eb) and 'Undefined' in repr(ea if is_err(ea) else eb):
            bad = [('iter1', ea, eb)]
    if bad:
        family = law.rsplit('-', 1)[0] if law[-1].isdigit() else law
        res.violation('law-violated', case,
                      {'aspect': bad[0][0], 'lhs': bad[0][1], 'rhs': bad[0][2],
                       'n_aspects': len(bad)},
                      sig={'law': family, 'aspect': bad[0][0].split('[')[0]})
    elif len(res.samples) < 2 and nontrivial and prog['ops']:
        res.sample({'prefix': prog, 'law': law, 'continuation': qname,
                    'both_sides_iterate_to': it[0][:5]})


LARGE_N = {'quick': ((127, 128, 129, 255, 256, 257, 300, 1000), (32769, 65537, 70001)),
           'thorough': ((127, 128, 129, 255, 256, 257, 300, 511, 1000, 4097),
                        (32769, 65535, 65536, 65537, 70001, 131073))}
LARGE_BASES = {
    'dict': lambda ld, n: ld.new({f'k{i}': i for i in range(n)}),
    'list': lambda ld, n: ld.new(list(range(n))),
    'dict.batch(4)': lambda ld, n: ld.new({f'k{i}': i for i in range(n)}).batch(4),
    'list.batch(2)': lambda ld, n: ld.new(list(range(n))).batch(2),
    'list.map(g)': lambda ld, n: ld.new(list(range(n))).map(G),
    'dict[::-1]': lambda ld, n: ld.new({f'k{i}': i for i in range(n)})[::-1],
    'list.batch(3)[1:]': lambda ld, n: ld.new(list(range(n))).batch(3)[1:],
}


def run_large(spec, res):
    """The same laws on datasets of several hundred to ~10^5 examples (sizes
    around the powers of two at which index representations change): both
    sides are iterated completely and compared element by element."""
    ld = import_lazy_dataset()
    L = laws(ld)
    rng = rng_for(spec['seed'], PROPERTY, spec['name'])
    names = sorted(L)
    small, huge = LARGE_N[spec['tier']]
    plan = []
    # a fixed core of laws for every base and size, plus a seeded sample
    core = [x for x in names if x in (
        'batch2-unbatch=id', 'concat-split2=id', 'concat-split3=id', 'indexlist-compose',
        'map-slice-0', 'map-slice-3', 'slice-compose-0', 'slice-compose-3',
        'slice-compose-10', 'slice-compose-24', 'slice-compose-27', 'map-batch2',
        'tile2=concat', 'map-shuffle-1', 'map-sort-False')]
    for n in small:
        for bname in LARGE_BASES:
            extra = rng.sample(names, min(len(names), spec['laws_small']))
            for law in core + [x for x in extra if x not in core]:
                plan.append((n, bname, law))
    cheap = [x for x in names if x.startswith(('slice-compose', 'concat-split', 'map-slice',
                                               'batch', 'tile2', 'indexlist'))]
    for n in huge:
        for bname in ('list.batch(2)', 'dict.batch(4)', 'list', 'list.batch(3)[1:]'):
            for law in rng.sample(cheap, min(len(cheap), spec['laws_huge'])):
                plan.append((n, bname, law))
    for j, (n, bname, law) in enumerate(plan):
        if j % spec['mod'] != spec['rem']:
            continue
        case = {'large': True, 'n': n, 'base': bname, 'law': law}
        lhs, rhs = L[law]
        sides = []
        for side in (lhs, rhs):
            try:
                d = side(LARGE_BASES[bname](ld, n))
                sides.append((list(d), ob.guarded(lambda: len(d)),
                              [ob.guarded(lambda: d[i]) for i in (0, -1, 255, 256, -257)]
                              if ob.guarded(lambda: d.indexable) is True else None))
            except Inapplicable:
                sides = None
                break
            except BaseException as e:
                sides.append(('!', type(e).__name__))
        if sides is None:
            res.count('law_not_applicable')
            continue
        if any(is_err(x) for x in sides):
            res.count('both_sides_refuse' if all(is_err(x) for x in sides)
                      else 'one_side_refuses')
            continue
        a, b = sides
        res.case(('large', n, bname, law), len(a[0]) >= 1)
        res.count('law_instances_compared')
        res.count('large_law_instances_compared')
        res.maximum('largest_dataset_compared', n)
        res.seen('laws', law.rsplit('-', 1)[0] if law[-1].isdigit() else law)
        family = law.rsplit('-', 1)[0] if law[-1].isdigit() else law
        if a[0] != b[0]:
            k = next((i for i, (x, y) in enumerate(zip(a[0], b[0])) if x != y),
                     min(len(a[0]), len(b[0])))
            res.violation('law-violated', case,
                          {'aspect': 'iter1', 'first_difference_at': k,
                           'lhs': repr(a[0][k:k + 3]), 'rhs': repr(b[0][k:k + 3]),
                           'lengths': [len(a[0]), len(b[0])]},
                          sig={'law': family, 'aspect': 'iter1', 'large': True})
        elif not is_err(a[1]) and not is_err(b[1]) and a[1] != b[1]:
            res.violation('law-violated', case, {'aspect': 'len', 'lhs': a[1], 'rhs': b[1]},
                          sig={'law': family, 'aspect': 'len', 'large': True})
        elif a[2] is not None and b[2] is not None and any(
                not is_err(x) and not is_err(y) and x != y for x, y in zip(a[2], b[2])):
            res.violation('law-violated', case,
                          {'aspect': 'get', 'lhs': repr(a[2])[:300], 'rhs': repr(b[2])[:300]},
                          sig={'law': family, 'aspect': 'get', 'large': True})


def candidates(spec):
    if spec['what'] == 'exh':
        cnt = 0
        for d in spec['depths']:
            for prog in programs.exhaustive(d, programs.SOURCES[:13]):
                cnt += 1
                if cnt % spec['mod'] == spec['rem']:
                    yield prog
    else:
        rng = rng_for(spec['seed'], PROPERTY, spec['name'] + 'p')
        for _ in range(spec['count']):
            yield programs.random_program(rng, 4)


def shards(tier, seed):
    lim = LIMITS[tier]
    J = 14
    out = [{'name': f'exh{j}', 'what': 'exh', 'mod': J, 'rem': j,
            'depths': list(lim['depths']), 'nq': lim['nq'], 'nlaws': lim['nlaws']}
           for j in range(J)]
    for j in range(2):
        out.append({'name': f'rand{j}', 'what': 'rand', 'count': lim['nrand'] // 2,
                    'nq': lim['nq'], 'nlaws': lim['nlaws']})
    JL = 12
    large = [{'name': f'large{j}', 'what': 'large', 'mod': JL, 'rem': j,
              'laws_small': 40 if tier == 'quick' else 150,
              'laws_huge': 10 if tier == 'quick' else 40} for j in range(JL)]
    return large + out          # the long-running ones first


def check_raw_sources(ld, res):
    """The same laws over sources that hand out their stored examples
    themselves (the bare DictDataset / ListDataset of the docstrings,
    from_file(..., immutable_warranty=None)), examples being lists: two
    epochs of each side, index access twice, and the stored examples
    afterwards.  A stage of the library works on what it was given; it does
    not write into it."""
    import copy
    core = ld.core

    def f(x):
        return ('f', x)

    def g(x):
        return ('g', x)
    raw = {
        'DictDataset-of-lists': lambda: core.DictDataset({'a': [1, 2], 'b': [3, 4], 'c': [5]}),
        'ListDataset-of-lists': lambda: core.ListDataset([[1, 2], [3, 4, 5], [6]]),
        'ListDataset-of-tuples': lambda: core.ListDataset([(1, 2), (3,), (4, 5)]),
        'list.batch(2)': lambda: ld.new([1, 2, 3, 4, 5]).batch(2),
    }
    pairs = {
        'batch_map-unbatch=unbatch-map': (lambda d: d.batch_map(f).unbatch(),
                                          lambda d: d.unbatch().map(f)),
        'batch_map-batch_map=batch_map-of-composition': (
            lambda d: d.batch_map(f).batch_map(g), lambda d: d.batch_map(lambda x: g(f(x)))),
        'batch_map-id=id': (lambda d: d.batch_map(lambda x: x), lambda d: d),
        'map-of-listcomp=batch_map': (lambda d: d.map(lambda b: [f(x) for x in b]),
                                      lambda d: d.batch_map(f)),
        'unbatch-batch1-unbatch=unbatch': (lambda d: d.unbatch().batch(1).unbatch(),
                                           lambda d: d.unbatch()),
    }
    for rn, mk in raw.items():
        for pn, (lhs, rhs) in pairs.items():
            case = {'raw_source': rn, 'law': pn}
            res.case(('raw', rn, pn), True)
            try:
                src_l, src_r = mk(), mk()
                before = copy.deepcopy(list(src_l))
                a, b = lhs(src_l), rhs(src_r)
                obs = []
                for d in (a, b):
                    e1, e2 = list(d), list(d)
                    idx = None
                    try:
                        idx = [d[0], d[0], d[-1]]
                    except BaseException:
                        pass
                    obs.append((e1, e2, idx, list(d)))
                after = (list(src_l), list(src_r))
            except BaseException as e:
                res.violation('law-violated', case, exc_sig(e),
                              sig={'law': 'raw-source-laws', 'aspect': 'raised'})
                continue
            res.count('law_instances_compared')
            res.count('raw_source_law_instances')
            bad = None
            norm = lambda o: [list(map(lambda x: list(x) if isinstance(x, (list, tuple)) else x, e))
                              if isinstance(e, list) else e for e in o]
            if norm(obs[0]) != norm(obs[1]):
                bad = ('sides-differ', obs[0], obs[1])
            elif obs[0][0] != obs[0][1] or obs[0][0] != obs[0][3]:
                bad = ('epochs-differ', obs[0][0], obs[0][1])
            elif [list(x) for x in after[0]] != [list(x) for x in before] or \
                    [list(x) for x in after[1]] != [list(x) for x in before]:
                bad = ('source-changed', before, after)
            if bad:
                res.violation('law-violated', case,
                              {'aspect': bad[0], 'lhs': bad[1], 'rhs': bad[2]},
                              sig={'law': 'raw-source-laws', 'aspect': bad[0]})


def run_shard(spec, res):
    if spec['what'] == 'large':
        return run_large(spec, res)
    if spec.get('name') == 'rand0':
        check_raw_sources(import_lazy_dataset(), res)
    ld = import_lazy_dataset()
    L = laws(ld)
    names = sorted(L)
    rng = rng_for(spec['seed'], PROPERTY, spec['name'])
    qnames = sorted(CONT)
    for prog in candidates(spec):
        status, m = programs.classify(prog)
        if status != 'ok' or not m.finite:
            continue
        # exhaustive prefixes: every law; random prefixes: a sample of laws
        k = spec['nlaws'] if (spec['what'] == 'exh' and len(prog['ops']) <= 1) else 12
        pick = names if k >= len(names) else rng.sample(names, k)
        for law in pick:
            for qn in ['id'] + rng.sample(qnames, spec['nq'] - 1):
                run_one(ld, L, prog, law, qn, res)


def finalize(res, tier):
    if res.counters.get('law_instances_compared', 0) < 1000:
        res.inconclusive_because('fewer than 1000 law instances compared')
    return {'law_families': sorted(res.sets.get('laws', ())),
            'continuations': sorted(CONT)}


def replay(case, res):
    ld = import_lazy_dataset()
    if case.get('large'):
        L = laws(ld)
        lhs, rhs = L[case['law']]
        a = list(lhs(LARGE_BASES[case['base']](ld, case['n'])))
        b = list(rhs(LARGE_BASES[case['base']](ld, case['n'])))
        if a != b:
            res.violation('law-violated', case, {'aspect': 'iter1'},
                          sig={'law': case['law'], 'aspect': 'iter1', 'large': True})
        return
    run_one(ld, laws(ld), fix_prog(case['prefix']), case['law'], case['continuation'], res)
