"""C02 - length and integer indexing agree with iteration.

Runtime monitor over the executions of the pipeline programs.  The antecedent
is the library's own answer (ds.indexable / a successful len(ds)), no reference
model is involved in the oracle: for an indexable finite dataset len must equal
the number of iterated examples, ds[i] and ds[i-n] must equal the i-th iterated
example for all i as int, np.int64 and np.int32, and every index outside
[-n, n) must raise IndexError; a sized, non-indexable dataset must report the
number of examples it yields.
"""
from .. import progshards, progengine
from .c01 import fix_prog

PROPERTY = 'C02'
LEVEL = 'exploration'
RULE = ('the C01 program space (depth <= 2 quick / 3 thorough exhaustive, random '
        'deeper programs, sources up to 12 examples); a case is one program; '
        'non-trivial iff the library reported indexable (or a length) for a '
        'finite dataset with >= 1 example and all indices were probed; distinct '
        'by the program')
ASSUMPTIONS = ['CycleDataset is excluded (not finite)',
               'numpy\'s IndexError subclass counts as IndexError']
SHARD_TIMEOUT = {'quick': 600, 'thorough': 7000}
ASPECTS = ('len', 'index')


def shards(tier, seed):
    out = progshards.shards(tier, seed, PROPERTY)
    out.append({'name': 'sized-nonindexable', 'what': 'sized',
                'nseeds': 4 if tier == 'quick' else 30})
    return out


def run_sized(spec, res):
    """The "offers a length without being indexable" clause for the stages
    whose order is random: only the *count* of iterated examples is compared
    with len(), so no order is assumed."""
    import numpy as np
    from ..common import import_lazy_dataset
    from ..terms import Fn
    ld = import_lazy_dataset()
    pres = {'plain': lambda d: d, 'map': lambda d: d.map(Fn('f')),
            'slice': lambda d: d[1:], 'concat': lambda d: d.concatenate(d),
            'batch': lambda d: d.batch(2)}
    rand = {'reshuffle': lambda d, r: d.shuffle(True, rng=r),
            'local2': lambda d, r: d.shuffle(True, rng=r, buffer_size=2),
            'local5': lambda d, r: d.shuffle(True, rng=r, buffer_size=5)}
    posts = {'none': lambda d: d, 'map': lambda d: d.map(Fn('g')),
             'batch2': lambda d: d.batch(2), 'batch3drop': lambda d: d.batch(3, drop_last=True),
             'prefetch1': lambda d: d.prefetch(1, 2),
             'prefetcht': lambda d: d.prefetch(2, 2, 't'),
             'concat': lambda d: d.concatenate(d), 'copy': lambda d: d.copy(),
             'map-prefetch1-batch': lambda d: d.map(Fn('g')).prefetch(1, 3).batch(2)}
    # ---- stages that *drop* examples must not offer the input's length
    class E1(Exception):
        pass

    class E2(Exception):
        pass

    def raiser(x):
        from ..terms import sid
        if sid(x) % 3 == 1:
            raise E1(x)
        if sid(x) % 5 == 2:
            raise ld.core.FilterException(x)
        return x
    catch_args = {'true': True, 'class': E1, 'tuple': (E1, ld.core.FilterException),
                  'filterexception-class': ld.core.FilterException,
                  'exception': Exception, 'none': None, 'false': False}
    droppers = {}
    for cn, ca in catch_args.items():
        droppers[f'prefetch1-catch-{cn}'] = lambda d, ca=ca: d.prefetch(
            1, 2, catch_filter_exception=ca)
        droppers[f'prefetcht-catch-{cn}'] = lambda d, ca=ca: d.prefetch(
            2, 3, 't', catch_filter_exception=ca)
    droppers['catch'] = lambda d: d.catch((E1, ld.core.FilterException))
    droppers['filter'] = lambda d: d.filter(lambda x: x % 2 == 0)
    droppers['filter-batch'] = lambda d: d.filter(lambda x: x % 2 == 0).batch(2)
    droppers['unbatch'] = lambda d: d.batch(2).unbatch()
    for n in range(0, 9):
        for backing in ('dict', 'list'):
            for dn, drop in droppers.items():
                for wrap in ('none', 'map', 'batch'):
                    case = {'n': n, 'backing': backing, 'stage': dn, 'wrap': wrap}
                    src = ({f'k{i}': i for i in range(n)} if backing == 'dict'
                           else list(range(n)))
                    try:
                        ds = ld.new(src)
                        if 'catch' in dn:
                            ds = ds.map(raiser)
                        ds = drop(ds)
                        if wrap == 'map':
                            ds = ds.map(Fn('g'))
                        elif wrap == 'batch':
                            ds = ds.batch(2)
                    except BaseException:
                        res.count('sized_case_not_offered')
                        continue
                    try:
                        ln = len(ds)
                    except BaseException:
                        res.count('length_not_offered')
                        res.seen('length_not_offered_by', dn.split('-catch-')[0])
                        continue
                    try:
                        cnt = sum(1 for _ in ds)
                    except BaseException:
                        res.count('sized_case_iteration_refused')
                        continue
                    res.case(('dropper', n, backing, dn, wrap), n >= 2)
                    res.count('sized_nonindexable_checked')
                    res.count('dropping_stage_sized_checked')
                    if ln != cnt:
                        res.violation('len-differs-from-iteration', case,
                                      {'len': ln, 'iterated': cnt},
                                      sig={'last_op': dn, 'indexable': False})
    # ---- n-ary combinators fed with a stage that drops examples: whatever
    # length the combination offers (most refuse one) must be what it yields
    combos = {
        'zip(sized, drop)': lambda a, d: a.zip(d),
        'zip(drop, sized)': lambda a, d: d.zip(a),
        'zip(sized, sized, drop)': lambda a, d: a.zip(a, d),
        'concatenate(sized, drop)': lambda a, d: a.concatenate(d),
        'concatenate(drop, sized)': lambda a, d: d.concatenate(a),
        'intersperse(sized, drop)': lambda a, d: a.intersperse(d),
        'key_zip(sized, drop)': lambda a, d: a.key_zip(d),
        'key_zip(drop, sized)': lambda a, d: d.key_zip(a),
        'free _zip(sized, drop)': lambda a, d: ld.core._zip(a, d),
        'free concatenate([sized, drop])': lambda a, d: ld.concatenate([a, d]),
    }
    for n in range(0, 9):
        for dn in ('catch', 'filter', 'unbatch', 'prefetch1-catch-true',
                   'prefetcht-catch-class', 'filter-batch'):
            for cn, comb in combos.items():
                for wrap in ('none', 'batch', 'map'):
                    case = {'n': n, 'combination': cn, 'dropping_stage': dn, 'wrap': wrap}
                    src = {f'k{i}': i for i in range(n)}
                    try:
                        a = ld.new(src)
                        d = ld.new(src)
                        if 'catch' in dn:
                            d = d.map(raiser)
                        d = droppers[dn](d)
                        if dn == 'filter-batch':
                            a = a.batch(2)
                        ds = comb(a, d)
                        if wrap == 'map':
                            ds = ds.map(Fn('g'))
                        elif wrap == 'batch':
                            ds = ds.batch(2)
                    except BaseException:
                        res.count('sized_case_not_offered')
                        continue
                    try:
                        ln = len(ds)
                    except BaseException:
                        res.count('length_not_offered')
                        continue
                    try:
                        cnt = sum(1 for _ in ds)
                    except BaseException:
                        res.count('sized_case_iteration_refused')
                        continue
                    res.case(('combo', n, cn, dn, wrap), n >= 2)
                    res.count('sized_nonindexable_checked')
                    res.count('combination_with_dropping_input_sized_checked')
                    if ln != cnt:
                        res.violation('len-differs-from-iteration', case,
                                      {'len': ln, 'iterated': cnt},
                                      sig={'last_op': cn.split('(')[0], 'indexable': False})
    # a frozen copy of a reshuffled pipeline is an indexable dataset of its
    # own: len, iteration and every index agree - also after the pipeline it
    # was copied from has drawn new orders and further frozen copies exist
    for n in range(0, 9):
        for backing in ('dict', 'list'):
            for pn, pre in pres.items():
                for sd in range(2):
                    case = {'n': n, 'backing': backing, 'pre': pn, 'frozen_copy': True,
                            'seed': sd}
                    src = ({f'k{i}': i for i in range(n)} if backing == 'dict'
                           else list(range(n)))
                    try:
                        ds = pre(ld.new(src)).shuffle(True, rng=np.random.RandomState(sd))
                        fz = ds.copy(freeze=True)
                        if fz.indexable is not True:
                            continue
                        seq = list(fz)
                        list(ds)
                        other = ds.copy(freeze=True)
                        it = iter(ds)
                        next(it, None)
                        list(other)
                        ln = len(fz)
                        byidx = [fz[i] for i in range(ln)]
                        byneg = [fz[i - ln] for i in range(ln)]
                        again = list(fz)
                    except BaseException as e:
                        res.count('sized_case_not_offered')
                        continue
                    res.case(('frozen', n, backing, pn, sd), n >= 2)
                    res.count('indexable_datasets_checked')
                    res.count('frozen_copies_checked_with_live_source')
                    if ln != len(seq) or byidx != seq or byneg != seq or again != seq:
                        res.violation('index-differs-from-iteration', case,
                                      {'iterated_first': seq, 'by_index': byidx,
                                       'iterated_again': again},
                                      sig={'last_op': 'freeze', 'frozen_copy': True})
    for n in range(0, 9):
        for backing in ('dict', 'list'):
            for pn, pre in pres.items():
                for rn, rd in rand.items():
                    for qn, post in posts.items():
                        for sd in range(spec['nseeds']):
                            case = {'n': n, 'backing': backing, 'pre': pn,
                                    'random_stage': rn, 'post': qn, 'seed': sd}
                            src = ({f'k{i}': i for i in range(n)} if backing == 'dict'
                                   else list(range(n)))
                            rng = (np.random.RandomState(sd) if sd % 2 == 0
                                   else np.random.default_rng(sd))
                            try:
                                ds = post(rd(pre(ld.new(src)), rng))
                                ln = len(ds)
                                idx = ds.indexable
                            except BaseException:
                                res.count('sized_case_not_offered')
                                continue
                            try:
                                cnt = sum(1 for _ in ds)
                            except BaseException as e:
                                res.count('sized_case_iteration_refused')
                                continue
                            res.case(('sized', n, backing, pn, rn, qn, sd), n >= 1)
                            res.count('sized_nonindexable_checked')
                            res.count('random_order_sized_checked')
                            if idx is not False:
                                res.count('random_stage_reports_indexable')
                            if ln != cnt:
                                res.violation('len-differs-from-iteration', case,
                                              {'len': ln, 'iterated': cnt},
                                              sig={'last_op': rn, 'indexable': False,
                                                   'post': qn})


def judge(prog, status, m, o, res):
    # only compositions the reference documents: an undocumented one that the
    # library happens to accept (e.g. items() of a key-less dataset behind a
    # cache) is not something the statement speaks about
    if status == 'unsupported' and o is not None and 'iter1' in o:
        # ... except for the one relation that needs no documentation: a length
        # that is offered is the number of examples iteration yields
        it1, ln = o['iter1'], o.get('len')
        if any(op[0] == 'cycle' for op in prog['ops']) or progengine.is_err(it1) \
                or it1[1] or ln is None or progengine.is_err(ln):
            return False
        res.count('undocumented_but_accepted_len_checked')
        if ln != len(it1[0]):
            res.violation('len-differs-from-iteration', {'prog': prog},
                          {'len': ln, 'iterated': len(it1[0]), 'documented': False},
                          sig={'last_op': progengine.last_op(prog), 'documented': False})
        return False
    if status != 'ok' or o is None or 'iter1' not in o:
        return False
    finite = not any(op[0] == 'cycle' for op in prog['ops'])
    labels = m.labelstate if status == 'ok' else '?'
    return progengine.judge_c02(prog, finite, o, res, labels)


def nontrivial(prog, status, m, o):
    it = o.get('iter1')
    return not progengine.is_err(it) and len(it[0]) >= 1


def run_shard(spec, res):
    if spec['what'] == 'sized':
        return run_sized(spec, res)
    progshards.run(spec, res, PROPERTY, ASPECTS, judge, nontrivial)


def finalize(res, tier):
    if res.counters.get('index_probes', 0) < 10000:
        res.inconclusive_because('fewer than 10000 index probes')
    if res.counters.get('random_order_sized_checked', 0) == 0:
        res.inconclusive_because('no randomly ordered sized dataset was checked')
    if res.counters.get('sized_nonindexable_checked', 0) == 0:
        res.inconclusive_because('no sized non-indexable dataset was checked')
    return {'exhaustive_depth': max(progshards.LIMITS[tier]['depths'])}


def replay(case, res):
    from ..common import import_lazy_dataset
    ld = import_lazy_dataset()
    prog = fix_prog(case['prog'])
    status, m, o = progengine.run_case(ld, prog, ASPECTS)
    if status not in ('skip', 'watchdog'):
        judge(prog, status, m, o, res)
