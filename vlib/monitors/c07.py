"""C07 - prefetch read-ahead is bounded by the buffer size.

Online invariant over the event log of every execution:
    pulled - delivered  <= buffer_size + 2
    started - delivered <= buffer_size          (pool paths)
checked at every pull / start event.  The adversarial consumer "that pauses
arbitrarily long" is the starve-the-consumer schedule (everything else runs
until it blocks).  The bound is only interesting if the workload reaches it:
the evidence reports the maximum excess seen per (path, b, w) and the run is
inconclusive when the maximum stays below the bound for some configuration -
so an off-by-one in either direction is visible.
"""
import random

from .. import conc, concshards as cs, detsched as D
from ..common import rng_for
from ..vias import COPYING

PROPERTY = 'C07'
LEVEL = 'exploration'
RULE = ('a case is one execution (scenario, schedule): entry x buffer 1..4 x workers '
        '1..3 x n = 3b+6 under the starve-the-consumer schedule and seeded random / '
        'PCT schedules, plus bounded-exhaustive schedules on small scenarios and '
        'real-thread / process-pool runs with a consumer that waits between reads; '
        'non-trivial iff the execution reached read-ahead >= buffer_size; distinct '
        'by the event trace')
ASSUMPTIONS = ['exact under the controlled scheduler; the real-thread runs subtract one '
               'in-flight example (can miss by one, never false-alarms)',
               'prefetch(1, b) runs the mapped function inside the pulled stream: only '
               'the pulled bound applies there']
SHARD_TIMEOUT = {'quick': 600, 'thorough': 7000}
LIMITS = {
    'quick': dict(bmax=4, wmax=3, rnd_runs=25, dfs_bound=2, dfs_cap=600, real_runs=120),
    'thorough': dict(bmax=4, wmax=3, rnd_runs=400, dfs_bound=3, dfs_cap=12000,
                     real_runs=2000),
}
# tight values measured on the unchanged tree (DESIGN.md, C07): the workload must
# reach them, otherwise the run did not exercise the bound
TIGHT = {'stp': lambda b, w: (b + 2, None), 'pf1': lambda b, w: (b + 2, None),
         'lpm': lambda b, w: (b + 1, b), 'parmap': lambda b, w: (b + 1, b),
         'pft': lambda b, w: (b, b)}


def big_configs(bmax, wmax):
    out = []
    for entry in ('stp', 'pf1', 'lpm', 'parmap', 'pft', 'chain'):
        for b in range(1, bmax + 1):
            ws = (1,) if entry in ('stp', 'pf1') else \
                tuple(range(2, wmax + 1)) if entry in ('pft', 'chain') else \
                tuple(range(1, wmax + 1))
            for w in ws:
                if b >= w:
                    out.append((entry, 3 * b + 6, b, w))
    return out


def shards(tier, seed):
    lim = LIMITS[tier]
    out = []
    J = 8
    for j in range(J):
        out.append({'name': f'starve{j}', 'what': 'starve', 'mod': J, 'rem': j, **lim})
    for j in range(4):
        out.append({'name': f'dfs{j}', 'what': 'dfs', 'mod': 4, 'rem': j, **lim})
    out.append({'name': 'real', 'what': 'real', **lim})
    out.append({'name': 'slow', 'what': 'slow', **lim})
    out.append({'name': 'proc', 'what': 'proc', **lim})
    return out


def run_shard(spec, res):
    what = spec['what']
    if what in ('starve', 'dfs'):
        conc.env()

        def on_run(sc, r):
            cs.note(res, sc, r)
            conc.judge_readahead(sc, r, res)
            mp, ms = conc.readahead(sc, r)
            res.case(conc.trace_hash(r['events']), mp >= sc['b'])
        if what == 'starve':
            rng = rng_for(spec['seed'], PROPERTY, spec['name'])
            cfgs = big_configs(spec['bmax'], spec['wmax'])
            for i, (entry, n, b, w) in enumerate(cfgs):
                if i % spec['mod'] != spec['rem']:
                    continue
                for key in (False, True):
                    if key and entry not in ('pf1', 'pft', 'parmap'):
                        continue
                    sc = cs.make(entry, n, b, w, key=key) if key else cs.make(entry, n, b, w)
                    r = conc.run(sc, D.starve_consumer_chooser())
                    on_run(sc, r)
                    for _ in range(spec['rnd_runs']):
                        sd = rng.randrange(1 << 30)
                        name = rng.choice(('starve', 'random', 'sticky', 'pct', 'youngest'))
                        r = conc.run(sc, cs.chooser_for(name, random.Random(sd)))
                        on_run(sc, r)
                    # stopping early must not let the read-ahead grow either
                    sc2 = dict(sc, stop=['close', 2])
                    on_run(sc2, conc.run(sc2, D.starve_consumer_chooser()))
                    if key and entry in ('pf1', 'pft'):
                        # keyed iteration over duplicated keys: refused or bounded
                        sc5 = dict(sc, dupkeys=True, may_refuse=True)
                        r5 = conc.run(sc5, D.starve_consumer_chooser())
                        res.count('keyed_over_duplicated_keys_cases')
                        if r5.get('delivered'):
                            res.count('keyed_over_duplicated_keys_delivered')
                        on_run(sc5, r5)
                    if not key and entry in ('pf1', 'pft', 'parmap'):
                        # complete passes over the same object while this
                        # iterator is suspended
                        for passes in (1, 3):
                            sc6 = dict(sc, nested=passes)
                            on_run(sc6, conc.run(sc6, D.starve_consumer_chooser()))
                            res.count('executions_with_nested_passes')
                    if not key and entry in ('pf1', 'pft', 'parmap', 'chain'):
                        sc4 = dict(sc, neighbour=True)
                        on_run(sc4, conc.run(sc4, D.starve_consumer_chooser()))
                        res.count('executions_with_neighbour_datasets')
                    # the buffer size is a parameter of the stage: it bounds
                    # the read-ahead of every copy of the stage as well
                    if not key and entry in ('pf1', 'pft', 'parmap'):
                        for path in COPYING:
                            sc3 = dict(sc, path=path)
                            on_run(sc3, conc.run(sc3, D.starve_consumer_chooser()))
                            res.count('executions_through_copies')
                            sd = rng.randrange(1 << 30)
                            on_run(sc3, conc.run(sc3, cs.chooser_for(
                                'random', random.Random(sd))))
            # degenerate buffer sizes: refused, or bounded like any other
            if spec['rem'] == 0:
                for entry, w in (('pf1', 1), ('pft', 2), ('parmap', 1), ('parmap', 2)):
                    for b in (0, -1):
                        sc = cs.make(entry, 12, b, w, may_refuse=True)
                        r = conc.run(sc, D.starve_consumer_chooser())
                        res.count('degenerate_buffer_size_cases')
                        if r.get('outcome') and r['outcome'][0] in ('build-refused', 'raised') \
                                and not r['delivered']:
                            res.count('degenerate_buffer_size_refused')
                            continue
                        on_run(sc, r)
            res.sample({'scenario': cs.make(*cfgs[spec['rem'] % len(cfgs)]),
                        'schedule': 'starve-the-consumer',
                        'events': 'pull i / start i / end i / deliver v'})
        else:
            scs = [cs.make(e_, n, b, w) for e_, n, b, w in cs.configs(3, 2, 2) if n == 3]
            for i, sc in enumerate(scs):
                if i % spec['mod'] != spec['rem']:
                    continue
                cs.explore_dfs(sc, spec['dfs_bound'], spec['dfs_cap'], on_run)
                res.count('dfs_scenarios')
    elif what == 'real':
        run_real(spec, res)
    elif what == 'slow':
        run_active_neighbours(spec, res)
        run_slow_consumer(spec, res)
    else:
        run_proc(spec, res)


def run_real(spec, res):
    """Real threads; the consumer waits for the log to go quiet between reads."""
    import time
    from .. import realthreads as rt
    e = conc.env(shim=False)
    rng = rng_for(spec['seed'], PROPERTY, spec['name'])
    cfgs = big_configs(3, 3)
    for i in range(spec['real_runs']):
        entry, n, b, w = rng.choice(cfgs)
        sc = cs.make(entry, n, b, w)
        sc['consumer_wait'] = 0.004
        r = rt.run(sc, rng.randrange(1 << 30))
        res.count('real_thread_executions')
        conc.judge_readahead(sc, r, res, inflight=1)
        mp, ms = conc.readahead(sc, r)
        res.maximum(f'real_pulled_minus_delivered:{entry}:b{b}', mp)
        res.case(('real', conc.trace_hash(r['events'])), mp >= b)


def run_active_neighbours(spec, res):
    """Real threads: the iterator under test is suspended after one example
    while four other prefetching datasets are consumed completely, then it is
    read slowly.  What those others hand over must not move its producer."""
    from .. import realthreads as rt
    conc.env(shim=False)
    for entry, b, w in (('pf1', 2, 1), ('pf1', 1, 1), ('pft', 2, 2), ('parmap', 3, 2),
                        ('chain', 2, 2)):
        sc = cs.make(entry, 40, b, w)
        sc['neighbour'] = 'active'
        sc['consumer_wait'] = 0.02
        sc['stop'] = ['close', 4]
        r = rt.run(sc, 11)
        res.count('active_neighbour_executions')
        conc.judge_readahead(sc, r, res, inflight=1)
        mp, ms = conc.readahead(sc, r)
        res.maximum(f'active_neighbours_pulled_minus_delivered:{entry}:b{b}', mp)
        res.case(('active-neighbours', entry, b, w), True)


def run_slow_consumer(spec, res):
    """Real threads, a consumer that needs ~0.3 s per example while the source
    is instantaneous: the read-ahead must not grow with the waiting time."""
    from .. import realthreads as rt
    conc.env(shim=False)
    for entry, b, w in (('stp', 1, 1), ('pf1', 2, 1), ('lpm', 2, 2), ('pft', 2, 2),
                        ('parmap', 3, 2)):
        sc = cs.make(entry, 12, b, w)
        sc['consumer_wait'] = 0.3
        sc['stop'] = ['close', 5]
        r = rt.run(sc, 7)
        res.count('slow_consumer_executions')
        conc.judge_readahead(sc, r, res, inflight=1)
        mp, ms = conc.readahead(sc, r)
        res.maximum(f'slow_consumer_pulled_minus_delivered:{entry}:b{b}', mp)
        res.case(('slow', entry, b, w), True)


def run_proc(spec, res):
    from .. import procpool as pp
    for be in pp.BACKENDS:
        for entry in ('pft', 'parmap'):
            n, b, w = 12, 3, 2
            sc = {'entry': entry, 'n': n, 'b': b, 'w': w, 'backend': be,
                  'delays': [0.0], 'stop': ['close', 1], 'settle': 0.8}
            r = pp.run_case(sc)
            if r.get('timeout') or r.get('crash'):
                res.inconclusive_because(f'process-pool case failed: {str(r)[:200]}')
                continue
            res.count('process_pool_executions')
            closed = r.get('closed_at')
            started = len({x[1] for x in r['records']
                           if x[0] == 'start' and (closed is None or x[2] <= closed + 0.7)})
            res.maximum(f'proc_started_with_1_delivered:{be}:{entry}', started)
            res.case(('proc', be, entry), True)
            # one example delivered, then the consumer sleeps: at most b more may
            # have been started (+1 for the hand-over in flight, + the w tasks that
            # the pool may pick up while the iterator is being closed)
            if started > 1 + b + 1:
                res.violation('started-ahead-exceeds-buffer',
                              {'scenario': sc}, {'started': started, 'delivered': 1},
                              sig={'entry': entry, 'backend': be, 'harness': 'process-pool'})


def finalize(res, tier):
    extra = cs.finalize_common(res)
    lim = LIMITS[tier]
    missing = []
    for entry, n, b, w in big_configs(lim['bmax'], lim['wmax']):
        if entry in ('chain', 'chainmid', 'chainpar', 'parpf1'):
            continue
        tp, ts = TIGHT[entry](b, w)
        key = f'{entry}:b{b}:w{w}'
        if res.maxima.get(f'pulled_minus_delivered:{key}', -1) < tp:
            missing.append(f'pulled {key} max {res.maxima.get("pulled_minus_delivered:" + key)} < {tp}')
        if ts is not None and res.maxima.get(f'started_minus_delivered:{key}', -1) < ts:
            missing.append(f'started {key} < {ts}')
    if missing:
        res.inconclusive_because('the workload did not reach the bound for: '
                                 + '; '.join(missing[:8]))
    for k in ('real_thread_executions', 'process_pool_executions'):
        if res.counters.get(k, 0) == 0:
            res.inconclusive_because(f'{k} is zero')
    extra['bounds_reached_for_configurations'] = len(big_configs(lim['bmax'], lim['wmax'])) - len(missing)
    return extra


def replay(case, res):
    sc = case['scenario']
    if sc.get('backend') is not None:
        return
    conc.env()
    r = conc.run(sc, D.replay_chooser(case.get('choices', [])))
    conc.judge_readahead(sc, r, res)
