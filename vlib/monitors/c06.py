"""C06 - errors in background work surface at the right position, never swallowed.

Fault enumeration under the controlled scheduler.  A fault plan says which
source positions / function applications raise what; the oracle over the event
log of one execution is: the consumer receives exactly the sequential prefix
that precedes the first failing example, then *the same exception object*; the
stream is never silently truncated, reordered or hung.  With
catch_filter_exception exactly the examples whose evaluation raised a selected
type are omitted, everything else arrives in order, other types propagate.
  who raises   the source iterator, the mapped function
  what         ValueError, a user Exception subclass, FilterException, a
               BaseException subclass
  selected     True (FilterException), one type, a tuple, the superclass Exception
Scoping (see DESIGN.md): ParMapDataset evaluates its *source* in the consumer
thread; when that source raises, up to buffer_size earlier results are not
delivered first - the oracle there is "a prefix, then the same exception";
BaseException is not injected into multiprocessing/pathos workers.
"""
import itertools

from .. import conc, concshards as cs, detsched as D
from ..common import rng_for
from .c04 import hang_exit
from ..vias import COPYING

PROPERTY = 'C06'
LEVEL = 'fault_enumeration'
RULE = ('a case is one execution (scenario incl. fault plan, schedule); fault '
        'plans: every single failing position 0..n-1 x {source, function} x 4 '
        'exception kinds, pairs of positions, all positions; catch plans: none | '
        'True | type | tuple | Exception; schedules: all with <= c preemptions on '
        'n <= 2/3, seeded random/PCT beyond; non-trivial iff the execution had >= 2 '
        'enabled threads and a fault fired; distinct by the event trace')
ASSUMPTIONS = ['shim fidelity as for C04', 'ParMapDataset source faults: prefix oracle',
               'no BaseException into multiprocessing/pathos workers']
SHARD_TIMEOUT = {'quick': 600, 'thorough': 7000}
LIMITS = {
    'quick': dict(dfs_n=2, dfs_b=2, dfs_bound=2, dfs_cap=130, rnd_n=4, rnd_b=3, rnd_w=2,
                  rnd_runs=5, real_runs=300, proc_cases=1),
    'thorough': dict(dfs_n=3, dfs_b=2, dfs_bound=3, dfs_cap=5000, rnd_n=5, rnd_b=4,
                     rnd_w=3, rnd_runs=60, real_runs=3000, proc_cases=3),
}
KINDS = ('value', 'user', 'filter', 'base')
CATCH_ENTRIES = ('pf1', 'pft', 'parpf1')


def fault_plans(n):
    plans = []
    for j in range(n):
        for where in ('src', 'fn'):
            for kind in KINDS:
                plans.append({where: {str(j): kind}})
    for a, b in itertools.combinations(range(n), 2):
        plans.append({'fn': {str(a): 'user', str(b): 'value'}})
        plans.append({'src': {str(b): 'value'}, 'fn': {str(a): 'filter'}})
    for j in range(n):
        plans.append({'fn': {str(j): 'stop'}})
    for j in sorted({0, n - 1}):
        plans.append({'fn': {str(j): 'index'}})
        plans.append({'src': {str(j): 'key'}})
    if n >= 1:
        plans.append({'fn': {str(j): 'user' for j in range(n)}})
        plans.append({'src': {str(j): 'filter' for j in range(n)}})
    return plans


def scenarios(nmax, bmax, wmax):
    out = []
    for entry, n, b, w in cs.configs(nmax, bmax, wmax):
        if n == 0:
            continue
        for fi, fp in enumerate(fault_plans(n)):
            out.append(cs.make(entry, n, b, w, faults=fp))
            keyed = entry in ('pf1', 'pft', 'parmap') and fi % 3 == 0
            if keyed:
                out.append(cs.make(entry, n, b, w, faults=fp, key=True))
            if entry in CATCH_ENTRIES:
                lookup = any(k in ('index', 'key') for d in fp.values()
                             if isinstance(d, dict) for k in d.values())
                for catch in ('true', 'user', 'tuple', 'exception', 'false', 'list',
                              'hier', 'hier-tuple'):
                    if catch in ('false', 'list') and fi % 2 == (catch == 'list'):
                        continue
                    if catch.startswith('hier') and not (
                            lookup or fi % 6 == (0 if catch == 'hier' else 3)):
                        continue
                    out.append(cs.make(entry, n, b, w, faults=fp, catch=catch))
                    if keyed:
                        # .items() through a catching prefetch
                        out.append(cs.make(entry, n, b, w, faults=fp, catch=catch,
                                           key=True))
            # the same through a copy / a lazy apply / the profiling wrapper:
            # which exceptions a prefetch filters is a parameter of the stage
            if entry in CATCH_ENTRIES and fi % 4 == 1:
                for pi, path in enumerate(COPYING):
                    catch = ('true', 'user', 'tuple', 'exception')[(fi // 4 + pi) % 4]
                    out.append(cs.make(entry, n, b, w, faults=fp, catch=catch, path=path))
            elif entry in ('pf1', 'pft', 'parmap') and fi % 4 == 3:
                out.append(cs.make(entry, n, b, w, faults=fp,
                                   path=COPYING[(fi // 4) % len(COPYING)]))
        if entry in ('stp', 'lpm', 'pf1', 'parmap') and n == 2:
            for kind in KINDS:
                out.append(cs.make(entry, n, b, w, faults={'iter': kind}))
        # consumer shutdown racing a failure
        if n >= 2:
            out.append(cs.make(entry, n, b, w, faults={'fn': {str(n - 1): 'user'}},
                               stop=['close', 1]))
    return out


def shards(tier, seed):
    lim = LIMITS[tier]
    out = []
    for j in range(2):
        out.append({'name': f'real{j}', 'what': 'real', 'mod': 2, 'rem': j, **lim})
    for j in range(3):
        out.append({'name': f'rnd{j}', 'what': 'rnd', 'mod': 3, 'rem': j, **lim})
    J = 9
    for j in range(J):
        out.append({'name': f'dfs{j}', 'what': 'dfs', 'mod': J, 'rem': j, **lim})
    from ..procpool import BACKENDS
    for be in BACKENDS:
        out.append({'name': f'proc-{be}', 'what': 'proc', 'backend': be, **lim})
    return out


def judge(sc, r, res, ld):
    if (sc.get('stop') or ['exhaust'])[0] != 'exhaust':
        # a failure racing the consumer's own shutdown: only termination counts
        return conc.judge_termination(sc, r, res)
    return conc.judge_errors(sc, r, res, ld)


def run_shard(spec, res):
    what = spec['what']
    if what in ('dfs', 'rnd'):
        e = conc.env()
        ld = e['ld']

        def on_run(sc, r):
            cs.note(res, sc, r)
            judge(sc, r, res, ld)
            if sc.get('path'):
                res.count('executions_through_copies')
            fired = any(ev[1] == 'raised' for ev in r['events']) or bool(r['raised_objs'])
            res.count('executions_with_fault_fired', int(fired))
            for o in r['raised_objs']:
                res.seen('exception_kinds_raised', type(o).__name__)
            res.case(conc.trace_hash(r['events']), r['max_enabled'] >= 2 and fired)
        if what == 'dfs':
            scs = scenarios(spec['dfs_n'], spec['dfs_b'], 2)
            for i, sc in enumerate(scs):
                if i % spec['mod'] != spec['rem']:
                    continue
                dfs = cs.explore_dfs(sc, spec['dfs_bound'], spec['dfs_cap'], on_run)
                res.count('dfs_scenarios')
                if dfs.complete:
                    res.count('dfs_scenarios_exhausted_within_bound')
            res.sample({'scenario': scs[(11 * spec['rem'] + 5) % len(scs)],
                        'schedules': 'all with <= %d preemptions' % spec['dfs_bound']})
        else:
            rng = rng_for(spec['seed'], PROPERTY, spec['name'])
            scs = scenarios(spec['rnd_n'], spec['rnd_b'], spec['rnd_w'])
            for i, sc in enumerate(scs):
                if i % spec['mod'] != spec['rem'] or sc['n'] < 3:
                    continue
                cs.explore_random(sc, spec['rnd_runs'], rng, on_run,
                                  choosers=('random', 'sticky', 'pct', 'youngest'))
    elif what == 'real':
        from .. import realthreads as rt
        e = conc.env(shim=False)
        ld = e['ld']
        counter = rt.install_perturbation(e['pu'], spec['seed'], 0.08)
        rng = rng_for(spec['seed'], PROPERTY, spec['name'])
        scs = [sc for sc in scenarios(4, 3, 3) if sc['n'] >= 2]
        for i in range(spec['real_runs'] // spec['mod']):
            sc = rng.choice(scs)
            seed = rng.randrange(1 << 30)
            r = rt.run(sc, seed, on_hang=hang_exit(res, sc, seed))
            res.count('real_thread_executions')
            judge(sc, r, res, ld)
            res.case(('real', conc.trace_hash(r['events'])), True)
        if spec['rem'] == 0:
            # long runs of consecutive filtered examples (a corrupt stretch of a
            # large dataset): everything else still arrives
            for entry, n, lo, hi in (('pft', 1400, 100, 1300), ('pf1', 1400, 0, 1399),
                                     ('pft', 1200, 0, 1200)):
                sc = cs.make(entry, n, 4, 2 if entry == 'pft' else 1, catch='true',
                             faults={'fn': {str(j): 'filter' for j in range(lo, hi)}})
                r = rt.run(sc, 11, on_hang=hang_exit(res, sc, 11))
                res.count('real_thread_executions')
                res.count('long_runs_of_filtered_examples')
                judge(sc, r, res, ld)
                res.case(('real-long', entry, n, lo, hi), True)
        res.count('yield_injection_line_events', counter[0])
    else:
        run_proc(spec, res)
        run_proc_two(spec, res)


def run_proc(spec, res):
    from .. import procpool as pp
    be = spec['backend']
    rng = rng_for(spec['seed'], PROPERTY, spec['name'])
    n = 6
    for entry in ('pft', 'parmap'):
        for pos in (0, 3, 5)[:1 + 2 * spec['proc_cases']]:
            for kind, catch in (('value', 'none'), ('user', 'none'),
                                ('filter', 'true'), ('user', 'user')):
                if catch != 'none' and (entry != 'pft' or be not in ('mp', 'dill_mp')):
                    # the catching wrapper is a local closure: only the
                    # dill-based backends can ship it to a worker process
                    continue
                sc = {'entry': entry, 'n': n, 'b': 3, 'w': 2, 'backend': be,
                      'delays': [0.02, 0.0, 0.01], 'faults': {str(pos): kind},
                      'catch': catch, 'stop': ['exhaust']}
                r = pp.run_case(sc)
                case = {'scenario': sc}
                sig = {'entry': entry, 'backend': be, 'harness': 'process-pool',
                       'catch': catch}
                if r.get('timeout'):
                    res.violation('hang-on-error', case, None, sig=sig)
                    continue
                if r.get('crash'):
                    res.inconclusive_because(f'process-pool case crashed: {r}')
                    continue
                res.count('process_pool_executions')
                res.case(('proc', be, entry, pos, kind, catch), True)
                first = r['first']
                got = pp.delivered(first)
                if catch != 'none':
                    want = [('f', i) for i in range(n) if i != pos]
                    if got != want or first['outcome'] != 'exhausted':
                        res.violation('filtered-sequence-differs', case,
                                      {'delivered': got, 'first': first}, sig=sig)
                    continue
                want = [('f', i) for i in range(pos)]
                name = {'value': 'ValueError', 'user': 'UserExc'}[kind]
                if first['outcome'] != 'raised':
                    res.violation('error-swallowed', case, {'first': first}, sig=sig)
                elif got != want:
                    res.violation('wrong-prefix-before-error', case,
                                  {'delivered': got, 'want': want}, sig=sig)
                elif first['extra'][0] != name or f"'fn', {pos}" not in first['extra'][1]:
                    res.violation('other-exception-surfaced', case,
                                  {'got': first['extra']}, sig=sig)


def run_proc_two(spec, res):
    """Two iterations of one process-pool stage alive and advanced in turns:
    the error that the first one surfaces is not the end (nor a hang) of the
    second one, which has tasks in flight at that moment."""
    from .. import procpool as pp
    be = spec['backend']
    n = 7
    for entry in ('pft', 'parmap'):
        for pos, kind in ((5, 'value'), (3, 'user')):
            sc = {'entry': entry, 'n': n, 'b': 3, 'w': 2, 'backend': be,
                  'delays': [0.1, 0.0, 0.05], 'faults': {str(pos): kind},
                  'catch': 'none', 'two_iterators_interleaved': True}
            r = pp.run_case(sc, timeout=60)
            case = {'scenario': sc}
            sig = {'entry': entry, 'backend': be, 'harness': 'process-pool',
                   'catch': 'none', 'iterators': 2}
            if r.get('timeout'):
                res.violation('hang-on-error', case, None, sig=sig)
                continue
            if r.get('crash'):
                res.inconclusive_because(f'process-pool case crashed: {str(r)[:300]}')
                continue
            res.count('process_pool_executions')
            res.count('process_pool_two_iterator_checks')
            res.case(('proc-two', be, entry, pos, kind), True)
            want = [('f', i) for i in range(pos)]
            name = {'value': 'ValueError', 'user': 'UserExc'}[kind]
            for which in ('first', 'second'):
                o = r[which]
                if o['outcome'] != 'raised':
                    res.violation('error-swallowed', case, {which: o}, sig=sig)
                elif pp.delivered(o) != want:
                    res.violation('wrong-prefix-before-error', case,
                                  {which: o, 'want': want}, sig=sig)
                elif o['extra'][0] != name or f"'fn', {pos}" not in o['extra'][1]:
                    res.violation('other-exception-surfaced', case, {which: o}, sig=sig)


def finalize(res, tier):
    extra = cs.finalize_common(res)
    for k in ('executions_with_fault_fired', 'real_thread_executions',
              'process_pool_executions', 'dfs_scenarios'):
        if res.counters.get(k, 0) == 0:
            res.inconclusive_because(f'{k} is zero')
    extra['preemption_bound'] = LIMITS[tier]['dfs_bound']
    return extra


def replay(case, res):
    sc = case['scenario']
    if sc.get('backend') is not None:
        return
    e = conc.env()
    r = conc.run(sc, D.replay_chooser(case.get('choices', [])))
    judge(sc, r, res, e['ld'])
