"""C17 - dynamic bucketing conserves examples and honours its limits.

Online invariant monitor on the events of one iteration:
  pull i      logged by the instrumented source (a mapped function of the
              dataset that feeds the bucket stage)
  create/append   logged by a bucket_cls subclass
  emit batch  observed by the consumer loop
Invariants (drop_incomplete=False): conservation (each example in exactly one
batch), non-empty, <= batch_size, padding-rate bound, max_total_size for
batches of more than one example, expiration, max_buffered_examples at every
pull.  drop_incomplete=True is decided differentially against the non-drop
twin: exactly the batches whose bucket reports is_completed() at emission in
the twin must be emitted, in the same order, nothing else.
"""
import itertools

from ..common import import_lazy_dataset, exc_sig, rng_for
from ..vias import VIAS, through

PROPERTY = 'C17'
LEVEL = 'exploration'
RULE = ('length sequences over {1,2,3,5,8}: exhaustive up to length L0 with the '
        'full parameter grid, exhaustive up to L1 with a seeded sample of the '
        'grid, random sequences of length 30 beyond; a case is (sequence, '
        'parameters); non-trivial iff some emitted batch holds >= 2 examples or '
        'a limit (expiration / max_buffered / max_total_size) closed a bucket; '
        'distinct by (sequence, parameters)')
ASSUMPTIONS = ['bucket evolution of the drop / non-drop twins is identical by '
               'construction (only emission differs)',
               'examples are (id, length) pairs with unique ids']
SHARD_TIMEOUT = {'quick': 300, 'thorough': 3000}
LIMITS = {'quick': dict(L0=3, L1=5, per_seq=6, nrand=300),
          'thorough': dict(L0=4, L1=7, per_seq=10, nrand=6000)}

ALPHABET = (1, 2, 3, 5, 8)
GRID = dict(
    bs=(1, 2, 3, 4),
    rate=(0, .2, .5, .9),
    exp=(None, 0, 1, 2, 3, 4),
    mb=(None, 0, 1, 2, 3, 5),
    mts=(None, 6, 10, 16),
    sort=(None, 'asc', 'desc'),
)


import numpy as _np
NUMTYPES = {'int': int, 'np.int64': _np.int64, 'np.uint16': _np.uint16,
            'np.uint32': _np.uint32, 'np.uint64': _np.uint64, 'float': float,
            'np.float32': _np.float32, 'np.int16': _np.int16}
NUMTYPE_NAMES = sorted(NUMTYPES)


def grid_points():
    keys = list(GRID)
    for combo in itertools.product(*[GRID[k] for k in keys]):
        yield dict(zip(keys, combo))


def run_once(ld, lens, p, drop, via):
    """One iteration.  Returns (events, batches, buckets_completed_flags).
    `via` is 'class' | 'method' | 'strkeys', optionally followed by
    ':<consumption path>' (vlib/vias.py): the limits are parameters of the
    stage and must hold for every way of consuming it."""
    via, _, path = via.partition(':')
    core = ld.core
    log = []
    buckets = []

    class B(core.DynamicTimeSeriesBucket):
        def __init__(self, init_example, **kw):
            super().__init__(init_example, **kw)
            buckets.append(self)

    # the number type of the lengths and of max_total_size (sample counts read
    # from arrays are numpy scalars, often unsigned)
    nt = NUMTYPES[p.get('numtype', 'int')]
    examples = [(i, nt(l)) for i, l in enumerate(lens)]

    def pull(x):
        log.append(('pull', x[0]))
        return x

    kw = dict(expiration=p['exp'], max_buffered_examples=p['mb'],
              drop_incomplete=drop,
              sort_key=(None if p['sort'] is None else (lambda x: x[1])),
              reverse_sort=(p['sort'] == 'desc'),
              batch_size=p['bs'], len_key=lambda x: x[1],
              max_padding_rate=p['rate'],
              max_total_size=(None if p['mts'] is None else
                              NUMTYPES[p.get('numtype_limit', p.get('numtype', 'int'))](p['mts'])))
    if via == 'strkeys':
        # dict examples, len_key / sort_key given as dictionary keys
        dex = [{'i': i, 'len': l} for i, l in examples]

        def pull_d(x):
            log.append(('pull', x['i']))
            return x
        kw2 = dict(kw, len_key='len', sort_key=(None if p['sort'] is None else 'len'))
        dsd = ld.new(dex).map(pull_d).batch_dynamic_bucket(bucket_cls=B, **kw2)
        ds = dsd.map(lambda b: [(x['i'], x['len']) for x in b])
    elif via == 'tsmethod':
        # the convenience wrapper most users call; it names the bucket class
        # itself, so the observing subclass is put in its place for the call
        orig = core.DynamicTimeSeriesBucket
        core.DynamicTimeSeriesBucket = B
        try:
            src_ds = ld.new(examples).map(pull)
            if len(lens) % 2:
                ds = src_ds.batch_dynamic_time_series_bucket(
                    kw['batch_size'], kw['len_key'], kw['max_padding_rate'],
                    kw['max_total_size'], kw['expiration'], kw['max_buffered_examples'],
                    kw['drop_incomplete'], kw['sort_key'], kw['reverse_sort'])
            else:
                ds = src_ds.batch_dynamic_time_series_bucket(
                    batch_size=kw['batch_size'], len_key=kw['len_key'],
                    max_padding_rate=kw['max_padding_rate'],
                    max_total_size=kw['max_total_size'], expiration=kw['expiration'],
                    max_buffered_examples=kw['max_buffered_examples'],
                    drop_incomplete=kw['drop_incomplete'], sort_key=kw['sort_key'],
                    reverse_sort=kw['reverse_sort'])
        finally:
            core.DynamicTimeSeriesBucket = orig
    elif via == 'method' and len(lens) % 2:
        # everything the signature allows to be positional, positionally:
        # batch_dynamic_bucket(bucket_cls, expiration, max_buffered_examples,
        #                      drop_incomplete, sort_key, reverse_sort, **bucket_kwargs)
        ds = ld.new(examples).map(pull).batch_dynamic_bucket(
            B, kw['expiration'], kw['max_buffered_examples'], kw['drop_incomplete'],
            kw['sort_key'], kw['reverse_sort'], batch_size=kw['batch_size'],
            len_key=kw['len_key'], max_padding_rate=kw['max_padding_rate'],
            max_total_size=kw['max_total_size'])
    elif via == 'method':
        ds = ld.new(examples).map(pull).batch_dynamic_bucket(bucket_cls=B, **kw)
    else:
        class Src:
            def __iter__(self):
                for e in examples:
                    yield pull(e)
        ds = core.DynamicBucketDataset(Src(), B, **kw)
    if path:
        ds = through(ld, ds, path)
    it = iter(ds)
    batches = []
    while True:
        n0 = len(log)
        try:
            b = next(it)
        except StopIteration:
            break
        log.append(('emit', tuple(x[0] for x in b)))
        # which bucket was this?  (ids are unique)
        ids = sorted(x[0] for x in b)
        flag = None
        for bk in buckets:
            if sorted((x['i'] if isinstance(x, dict) else x[0]) for x in bk.data) == ids:
                flag = bool(bk.is_completed())
        batches.append((list(b), flag))
    return log, batches


def judge_nodrop(lens, p, log, batches, case, res):
    n = len(lens)
    bs, rate, exp, mb, mts = p['bs'], p['rate'], p['exp'], p['mb'], p['mts']
    sig = {'mode': 'nodrop'}
    pulled = 0
    delivered = 0
    closed_by_limit = False
    bi = 0
    for ev in log:
        if ev[0] == 'pull':
            # examples pulled before this one and not yet handed over
            withheld = pulled - delivered
            res.maximum('max_withheld_minus_limit',
                        -99 if mb is None else withheld - mb)
            if mb is not None and withheld > mb:
                res.violation('too-many-withheld', case,
                              {'pulled': pulled, 'delivered': delivered, 'limit': mb},
                              sig=sig)
                return False
            if ev[1] != pulled:
                res.violation('source-order-broken', case, {'log': log[:20]}, sig=sig)
                return False
            pulled += 1
        else:
            b, complete = batches[bi]
            bi += 1
            delivered += len(b)
            ls = [float(x[1]) if isinstance(x[1], (float, _np.floating)) else int(x[1])
                  for x in b]
            if len(b) == 0:
                res.violation('empty-batch', case, None, sig=sig)
                return False
            if len(b) > bs:
                res.violation('batch-too-long', case, {'batch': b}, sig=sig)
                return False
            if min(ls) < max(ls) * (1 - rate) - 1e-9 * max(ls):
                res.violation('padding-rate-exceeded', case, {'batch': b}, sig=sig)
                return False
            if mts is not None and len(b) > 1 and len(b) * max(ls) > mts:
                res.violation('max-total-size-exceeded', case, {'batch': b, 'limit': mts},
                              sig=sig)
                return False
            first = min(x[0] for x in b)
            if exp is not None:
                age = (pulled - 1) - first
                res.maximum('max_age_minus_expiration', age - exp)
                if age > exp:
                    res.violation('bucket-outlived-expiration', case,
                                  {'batch': b, 'emitted_after_pull': pulled - 1,
                                   'expiration': exp}, sig=sig)
                    return False
            if p['sort'] is not None:
                want = sorted(ls, reverse=(p['sort'] == 'desc'))
                if ls != want:
                    res.violation('batch-not-sorted', case, {'batch': b}, sig=sig)
                    return False
            if complete is False and pulled < n:
                closed_by_limit = True
    ids = sorted(x[0] for b, _ in batches for x in b)
    if ids != list(range(n)) or pulled != n:
        res.violation('conservation', case,
                      {'emitted_ids': [[x[0] for x in b] for b, _ in batches],
                       'pulled': pulled}, sig=sig)
        return False
    for b, _ in batches:
        if any(lens[i] != l for i, l in b):     # (numpy scalars compare by value)
            res.violation('example-altered', case, {'batch': b}, sig=sig)
            return False
    return closed_by_limit


def check(ld, lens, p, via, res):
    if 'numtype' not in p:
        h = (sum(lens) * 7 + len(lens) * 3 + p['bs'] + (p['mts'] or 0)) % 16
        if h < len(NUMTYPE_NAMES):
            p = dict(p, numtype=NUMTYPE_NAMES[h],
                     numtype_limit=NUMTYPE_NAMES[(h * 5 + 1) % len(NUMTYPE_NAMES)])
    case = {'lens': list(lens), 'params': p, 'via': via}
    try:
        log, batches = run_once(ld, lens, p, False, via)
    except BaseException as e:
        res.case((tuple(lens), tuple(p.items()), via), False)
        res.violation('bucket-iteration-raised', case, exc_sig(e), sig={'mode': 'nodrop'})
        return
    limit = judge_nodrop(lens, p, log, batches, case, res)
    nontrivial = bool(limit) or any(len(b) >= 2 for b, _ in batches)
    res.case((tuple(lens), tuple(p.items()), via), nontrivial)
    res.count('batches_checked', len(batches))
    res.seen('length_number_types', p.get('numtype', 'int'))
    res.seen('consumption_paths', via)
    if any(f is None for _, f in batches):
        res.violation('batch-from-unknown-bucket', case,
                      {'batches': [b for b, _ in batches]}, sig={'mode': 'nodrop'})
        return
    # ---- drop twin
    try:
        log2, batches2 = run_once(ld, lens, p, True, via)
    except BaseException as e:
        res.violation('bucket-iteration-raised', case, exc_sig(e), sig={'mode': 'drop'})
        return
    want = [b for b, complete in batches if complete]
    got = [b for b, _ in batches2]
    res.count('drop_twin_comparisons')
    res.count('incomplete_batches_in_twins', len(batches) - len(want))
    if got != want:
        res.violation('drop-mode-differs-from-twin', case,
                      {'emitted_with_drop': got, 'complete_in_twin': want,
                       'all_in_twin': [(b, c) for b, c in batches]},
                      sig={'mode': 'drop'})
        return
    if [e for e in log2 if e[0] == 'pull'] != [e for e in log if e[0] == 'pull']:
        res.violation('drop-mode-pulls-differ', case, None, sig={'mode': 'drop'})
    # withheld bound in drop mode: examples pulled, not delivered and not yet
    # dropped.  Dropped examples are those of incomplete twin batches; a twin
    # batch leaves the buffer at the same pull index in both runs.
    if p['mb'] is not None:
        gone_at = {}
        pulled = 0
        bi = 0
        for ev in log:
            if ev[0] == 'pull':
                pulled += 1
            else:
                gone_at[bi] = pulled
                bi += 1
        pulled = 0
        for ev in log:
            if ev[0] != 'pull':
                continue
            gone = sum(len(batches[k][0]) for k, at in gone_at.items() if at <= pulled)
            if pulled - gone > p['mb']:
                res.violation('too-many-withheld', case, {'pulled': pulled, 'gone': gone},
                              sig={'mode': 'drop'})
                break
            pulled += 1


class _Boom(Exception):
    pass


def check_error_path(ld, lens, p, where, pos, res):
    """The source, len_key or sort_key raises for one example: the consumer
    gets that exception - the iteration never just ends, which would lose the
    failing example and everything still held in open buckets."""
    case = {'lens': list(lens), 'params': p, 'raises_in': where, 'raises_at': pos,
            'error_path': True}
    res.case(('err', tuple(lens), tuple(p.items()), where, pos), True)
    examples = [(i, l) for i, l in enumerate(lens)]

    def src_fn(x):
        if where == 'source' and x[0] == pos:
            raise _Boom(('source', pos))
        return x

    def len_key(x):
        if where == 'len_key' and x[0] == pos:
            raise _Boom(('len_key', pos))
        return x[1]

    def sort_key(x):
        if where == 'sort_key' and x[0] == pos:
            raise _Boom(('sort_key', pos))
        return x[1]
    got = []
    try:
        ds = ld.new(examples).map(src_fn).batch_dynamic_time_series_bucket(
            batch_size=p['bs'], len_key=len_key, max_padding_rate=p['rate'],
            max_total_size=p['mts'], expiration=p['exp'], max_buffered_examples=p['mb'],
            # (not for sort_key: a dropped bucket is never sorted)
            drop_incomplete=(pos % 2 == 1 and where != 'sort_key'),
            sort_key=(sort_key if where == 'sort_key' or p['sort'] else None))
        for b in ds:
            got.append(b)
    except _Boom:
        res.count('bucket_error_paths_reported')
        return
    except BaseException as e:
        res.violation('bucket-iteration-raised', case, exc_sig(e),
                      sig={'mode': 'error-path', 'where': where})
        return
    res.violation('conservation', case,
                  {'iteration_ended_without_error_after_batches': [[x[0] for x in b] for b in got]},
                  sig={'mode': 'error-path', 'where': where})


def check_dual(ld, lens, p, res):
    """Two iterators over ONE bucketing dataset alive at once (the first is
    suspended after some batches, the second runs to its end, the first goes
    on): every invariant holds for each iterator's own stream."""
    case = {'lens': list(lens), 'params': p, 'via': 'method', 'two_iterators': True}
    res.case(('dual', tuple(lens), tuple(p.items())), len(lens) >= 4)
    logs = {1: [], 2: []}
    cur = [1]

    def pull(x):
        logs[cur[0]].append(('pull', x[0]))
        return x
    examples = [(i, l) for i, l in enumerate(lens)]
    kw = dict(expiration=p['exp'], max_buffered_examples=p['mb'], drop_incomplete=False,
              batch_size=p['bs'], len_key=lambda x: x[1], max_padding_rate=p['rate'],
              max_total_size=p['mts'],
              sort_key=(None if p['sort'] is None else (lambda x: x[1])),
              reverse_sort=(p['sort'] == 'desc'))
    outs = {1: [], 2: []}
    try:
        ds = ld.new(examples).map(pull).batch_dynamic_time_series_bucket(**kw)
        it1 = iter(ds)
        for _ in range(max(1, len(lens) // 4)):
            cur[0] = 1
            b = next(it1, None)
            if b is None:
                break
            outs[1].append((list(b), None))
            logs[1].append(('emit', tuple(x[0] for x in b)))
        cur[0] = 2
        for b in ds:
            outs[2].append((list(b), None))
            logs[2].append(('emit', tuple(x[0] for x in b)))
        cur[0] = 1
        for b in it1:
            outs[1].append((list(b), None))
            logs[1].append(('emit', tuple(x[0] for x in b)))
    except BaseException as e:
        res.violation('bucket-iteration-raised', case, exc_sig(e),
                      sig={'mode': 'nodrop', 'two_iterators': True})
        return
    res.count('two_iterator_runs_checked')
    for who in (1, 2):
        before = len(res.violations)
        judge_nodrop(lens, p, logs[who], outs[who], {**case, 'iterator': who}, res)
        for v in res.violations[before:]:
            v['sig']['two_iterators'] = True


def check_consumer(ld, lens, p, how, res):
    """What the consumer does between two next() calls:
    'reconfigure': after a first (abandoned) iteration the limits of the SAME
    dataset object are lowered in place (ds.bucket_kwargs[...] = ..., e.g.
    after an out-of-memory error); the next iteration honours the limits the
    object now reports.
    'pad' / 'shrink': every received batch is changed in place (padding
    entries appended / examples removed, as a collate function does); the
    bookkeeping of the stage is its own."""
    p = dict(p)
    case = {'lens': list(lens), 'params': p, 'via': 'method', 'consumer': how}
    res.case(('consumer', how, tuple(lens), tuple(p.items())), len(lens) >= 3)
    log = []

    def pull(x):
        log.append(('pull', x[0]))
        return x
    examples = [(i, l) for i, l in enumerate(lens)]
    kw = dict(expiration=p['exp'], max_buffered_examples=p['mb'], drop_incomplete=False,
              batch_size=p['bs'], len_key=lambda x: x[1], max_padding_rate=p['rate'],
              max_total_size=p['mts'],
              sort_key=(None if p['sort'] is None else (lambda x: x[1])),
              reverse_sort=(p['sort'] == 'desc'))
    outs = []
    try:
        ds = ld.new(examples).map(pull).batch_dynamic_time_series_bucket(**kw)
        if how == 'reconfigure':
            if not isinstance(getattr(ds, 'bucket_kwargs', None), dict) \
                    or 'batch_size' not in ds.bucket_kwargs:
                return
            it = iter(ds)
            next(it, None)
            del it
            p['bs'] = max(1, p['bs'] - 1)
            ds.bucket_kwargs['batch_size'] = p['bs']
            if p['mts'] is not None:
                p['mts'] = max(max(lens), p['mts'] // 2)
                ds.bucket_kwargs['max_total_size'] = p['mts']
            del log[:]
        for b in ds:
            outs.append((list(b), None))
            log.append(('emit', tuple(x[0] for x in b)))
            if how == 'pad':
                b.extend([('pad', 0)] * 2)
            elif how == 'shrink':
                del b[:]
    except BaseException as e:
        res.violation('bucket-iteration-raised', case, exc_sig(e),
                      sig={'mode': 'nodrop', 'consumer': how})
        return
    res.count('runs_with_an_active_consumer_checked')
    before = len(res.violations)
    judge_nodrop(lens, p, log, outs, case, res)
    for v in res.violations[before:]:
        v['sig']['consumer'] = how


def shards(tier, seed):
    lim = LIMITS[tier]
    out = []
    J = 14
    for j in range(J):
        out.append({'name': f'grid{j}', 'what': 'grid', 'mod': J, 'rem': j, **lim})
    out.append({'name': 'sampled', 'what': 'sampled', **lim})
    out.append({'name': 'random', 'what': 'random', **lim})
    return out


def run_shard(spec, res):
    ld = import_lazy_dataset()
    rng = rng_for(spec['seed'], PROPERTY, spec['name'])
    pts = list(grid_points())
    if spec['what'] == 'grid':
        cnt = 0
        for L in range(0, spec['L0'] + 1):
            for lens in itertools.product(ALPHABET, repeat=L):
                for p in pts:
                    cnt += 1
                    if cnt % spec['mod'] != spec['rem']:
                        continue
                    via = 'class' if cnt % 5 else (('method', 'tsmethod')[(cnt // 10) % 2]
                                                   if cnt % 10 else 'strkeys')
                    if via != 'class':
                        via += ':' + VIAS[(cnt // 10) % len(VIAS)]
                    check(ld, lens, p, via, res)
        res.sample({'lens': [1, 5, 2, 8], 'params': pts[len(pts) // 3]})
    elif spec['what'] == 'sampled':
        for L in range(spec['L0'] + 1, spec['L1'] + 1):
            for lens in itertools.product(ALPHABET, repeat=L):
                for p in rng.sample(pts, spec['per_seq'] if L <= 5 else 1):
                    check(ld, lens, p, 'class', res)
    else:
        for _ in range(spec['nrand']):
            lens = [rng.choice(ALPHABET + (4, 6, 7, 13)) for _ in range(30)]
            p = rng.choice(pts)
            via = rng.choice(('class', 'method', 'method', 'strkeys'))
            if via != 'class':
                via += ':' + rng.choice(VIAS)
            check(ld, lens, p, via, res)
        for _ in range(spec['nrand']):
            lens = [rng.choice(ALPHABET) for _ in range(rng.choice((1, 3, 6, 12)))]
            check_error_path(ld, lens, dict(rng.choice(pts)),
                             rng.choice(('source', 'len_key', 'sort_key')),
                             rng.randrange(len(lens)), res)
        for _ in range(spec['nrand'] // 2):
            lens = [rng.choice(ALPHABET) for _ in range(rng.choice((6, 12, 20)))]
            p = dict(rng.choice(pts))
            if p['mb'] is None and rng.random() < 0.7:
                p['mb'] = rng.choice((1, 2, 3, 5))
            check_dual(ld, lens, p, res)
        for k in range(spec['nrand']):
            lens = [rng.choice(ALPHABET) for _ in range(rng.choice((4, 8, 14)))]
            p = dict(rng.choice(pts))
            if p['mb'] is None and rng.random() < 0.6:
                p['mb'] = rng.choice((1, 2, 3, 5))
            p['bs'] = max(p['bs'], 2)
            check_consumer(ld, lens, p, ('reconfigure', 'pad', 'shrink')[k % 3], res)
        # long streams (several hundred examples, lengths up to 300)
        for L in (257, 300, 1000):
            for _ in range(spec.get('nlong', 6)):
                lens = [rng.choice((1, 2, 3, 5, 8, 13, 40, 300)) for _ in range(L)]
                p = dict(rng.choice(pts))
                p['bs'] = rng.choice((2, 4, 16, 300))
                p['mts'] = rng.choice((None, 64, 1000))
                p['mb'] = rng.choice((None, 5, 100, 260))
                p['exp'] = rng.choice((None, 3, 128, 257))
                via = rng.choice(('class', 'method', 'strkeys'))
                if via != 'class':
                    via += ':' + rng.choice(VIAS)
                check(ld, lens, p, via, res)
                res.count('long_streams_checked')
        res.sample({'lens': lens[:12], 'params': p})


def finalize(res, tier):
    for k in ('batches_checked', 'drop_twin_comparisons', 'incomplete_batches_in_twins'):
        if res.counters.get(k, 0) == 0:
            res.inconclusive_because(f'monitor {k} never evaluated')
    if res.maxima.get('max_withheld_minus_limit', -99) < 0:
        res.inconclusive_because('max_buffered_examples bound never reached')
    if res.maxima.get('max_age_minus_expiration', -99) < 0:
        res.inconclusive_because('expiration bound never reached')
    return {'grid_points': len(list(grid_points())),
            'full_grid_up_to_length': LIMITS[tier]['L0'],
            'exhaustive_sequences_up_to_length': LIMITS[tier]['L1']}


def replay(case, res):
    ld = import_lazy_dataset()
    if case.get('two_iterators'):
        return check_dual(ld, case['lens'], case['params'], res)
    if case.get('consumer'):
        return check_consumer(ld, case['lens'], case['params'], case['consumer'], res)
    if case.get('error_path'):
        return check_error_path(ld, case['lens'], case['params'], case['raises_in'],
                                case['raises_at'], res)
    check(ld, case['lens'], case['params'], case.get('via', 'class'), res)
