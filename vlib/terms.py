"""Symbolic user functions.  Every value that leaves a pipeline is a *term* that
spells out which source examples went through which functions in which order:
source example i is the integer i, f(x) = ("f", x), a batch is the list of its
members, zip gives tuples, items gives (key, value)."""
import numpy as np


def sid(t):
    """First source id occurring in a term (-1 for an empty container)."""
    while not isinstance(t, (int, np.integer)) or isinstance(t, bool):
        if isinstance(t, tuple) and len(t) == 2 and isinstance(t[0], str):
            t = t[1]
        elif isinstance(t, (list, tuple)):
            if len(t) == 0:
                return -1
            t = t[0]
        else:
            return -1
    return int(t)


def all_ids(t):
    """Every source id in a term, in order of occurrence."""
    out = []

    def rec(x):
        if isinstance(x, (int, np.integer)) and not isinstance(x, bool):
            out.append(int(x))
        elif isinstance(x, (list, tuple)):
            for y in x:
                rec(y)
    rec(t)
    return out


class Fn:
    """Named symbolic function with an optional call log."""

    def __init__(self, name, log=None, stage=None):
        self.name = name
        self.log = log
        self.stage = stage or name

    def __call__(self, x):
        if self.log is not None:
            self.log.append((self.stage, sid(x)))
        return (self.name, x)

    def __repr__(self):
        return f'Fn({self.name})'


class Pred:
    """sid(x) % m != 0"""

    def __init__(self, m, log=None, stage=None, style=None):
        self.m = m
        self.log = log
        self.stage = stage or f'p{m}'
        # what the predicate returns: a bool, or another object with that
        # truth value (a list, an int, None / an object, a numpy bool ...),
        # chosen by the position of the stage in the pipeline
        if style is None:
            n = sum(ord(c) for c in self.stage) if stage else 0
            style = TRUTH_STYLES[n % len(TRUTH_STYLES)] if stage else 'bool'
        self.style = style

    def __call__(self, x):
        if self.log is not None:
            self.log.append((self.stage, sid(x)))
        keep = sid(x) % self.m != 0
        return keep if self.style == 'bool' else truthy(keep, self.style, sid(x))

    def __repr__(self):
        return f'Pred({self.m})'


TRUTH_STYLES = ('bool', 'list', 'tuple-of-zeros', 'int', 'str', 'none-or-object',
                'numpy-bool', 'ragged-list', 'dict')


def truthy(keep, style, i=0):
    """A value whose Python truth value is `keep`, in various disguises (a
    predicate may return any object, e.g. "the list of channels")."""
    import numpy as _np
    if style == 'bool':
        return bool(keep)
    if style == 'list':
        return [1, 2] if keep else []
    if style == 'tuple-of-zeros':
        return (0, 0) if keep else ()
    if style == 'int':
        return 2 if keep else 0
    if style == 'str':
        return 'x' if keep else ''
    if style == 'none-or-object':
        return object() if keep else None
    if style == 'numpy-bool':
        return _np.bool_(keep)
    if style == 'ragged-list':
        return [0] * (1 + i % 3) if keep else []
    if style == 'dict':
        return {'a': 0} if keep else {}
    raise ValueError(style)


class GroupFn:
    """sid(x) % m as group id"""

    def __init__(self, m, log=None, stage=None):
        self.m = m
        self.log = log
        self.stage = stage or f'g{m}'

    def __call__(self, x):
        if self.log is not None:
            self.log.append((self.stage, sid(x)))
        return sid(x) % self.m


class SortKey:
    """Injective on the source ids in use (7 is invertible modulo 211)."""

    def __init__(self, log=None, stage='sortkey'):
        self.log = log
        self.stage = stage

    def __call__(self, x):
        if self.log is not None:
            self.log.append((self.stage, sid(x)))
        return (7 * sid(x)) % 211


class ScriptedRandomState(np.random.RandomState):
    """A RandomState whose shuffle applies a permutation chosen by the harness,
    so that no oracle depends on numpy's shuffling algorithm."""

    def __init__(self, perm_for):
        super().__init__(0)
        self.perm_for = perm_for      # n -> list (a permutation of range(n))
        self.calls = 0

    def shuffle(self, x):
        self.calls += 1
        p = self.perm_for(len(x))
        x[:] = np.asarray(x)[p]

    def permutation(self, x):
        n = x if isinstance(x, (int, np.integer)) else len(x)
        self.calls += 1
        p = np.array(self.perm_for(int(n)), dtype=int)
        return p if isinstance(x, (int, np.integer)) else np.asarray(x)[p]


def scripted_perm(seed):
    import random

    def perm_for(n):
        p = list(range(n))
        random.Random(f'perm:{seed}:{n}').shuffle(p)
        return p
    return perm_for
