"""Child process for C04: examples that are None / falsy / empty / exception
objects / pairs through a process-pool prefetch and a process-pool map.

    python -m vlib.c04_odd_child '<json: backend, via>'

Prints RESULT <json> with (type name, repr) of everything delivered."""
import sys
import json


def ident(x):
    return x


VALS = [None, 0, False, '', [], (), {}, b'', 0.0, [None], 'x', None, 0,
        ValueError('v'), StopIteration(), ('k0', 5), (7,), KeyError, Ellipsis]


def main(arg):
    sc = json.loads(arg)
    from vlib.common import import_lazy_dataset
    ld = import_lazy_dataset()
    if sc['via'] == 'items':
        ds = ld.new({f'k{i}': v for i, v in enumerate(VALS)}).map(ident).prefetch(
            2, 3, sc['backend']).items()
    elif sc['via'] == 'parmap':
        ds = ld.new(VALS).map(ident, num_workers=2, buffer_size=3, backend=sc['backend'])
    elif sc['via'] == 'catch':
        ds = ld.new(VALS).map(ident).prefetch(2, 3, sc['backend'],
                                             catch_filter_exception=True)
    else:
        ds = ld.new(VALS).map(ident).prefetch(2, 3, sc['backend'])
    out = {}
    try:
        got = list(ds)
        if sc['via'] == 'items':
            out['keys'] = [k for k, _ in got]
            got = [v for _, v in got]
        out['delivered'] = [[type(v).__name__, repr(v)] for v in got]
        out['outcome'] = 'exhausted'
    except BaseException as e:
        out['outcome'] = 'raised'
        out['error'] = [type(e).__name__, repr(e)[:200]]
    out['want'] = [[type(v).__name__, repr(v)] for v in VALS]
    sys.stdout.write('RESULT ' + json.dumps(out) + '\n')
    sys.stdout.flush()


if __name__ == '__main__':
    main(sys.argv[1])
