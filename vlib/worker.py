"""Runs one shard of one monitor in its own process:
   python -m vlib.worker <Cxx> <spec.json> <out.pkl>"""
import sys
import json
import pickle
import importlib
import traceback
import faulthandler

from .result import Result


def main(argv):
    prop, spec_path, out_path = argv
    import os
    os.environ['VERIF_OUT_PATH'] = out_path
    faulthandler.enable()
    import signal
    # the driver sends SIGUSR1 before killing a shard that exceeded its
    # watchdog, so that the stacks of all threads end up in the shard log
    faulthandler.register(signal.SIGUSR1, all_threads=True, chain=False)
    with open(spec_path) as fd:
        spec = json.load(fd)
    res = Result()
    try:
        mon = importlib.import_module(f'vlib.monitors.{prop.lower()}')
        mon.run_shard(spec, res)
    except BaseException:
        # A crash of the harness is never a verdict about the library.
        res.inconclusive_because(
            f'shard {spec.get("name")} crashed: '
            + traceback.format_exc()[-1500:])
    with open(out_path, 'wb') as fd:
        pickle.dump(res.dump(), fd)
    return 0


if __name__ == '__main__':
    sys.exit(main(sys.argv[1:]))
