"""Runs one shard of one monitor in its own process:
   python -m vlib.worker <Cxx> <spec.json> <out.pkl>"""
import sys
import json
import pickle
import importlib
import traceback
import faulthandler

from .result import Result


def main(argv):
    prop, spec_path, out_path = argv
    import os
    os.environ['VERIF_OUT_PATH'] = out_path
    faulthandler.enable()
    import signal
    # the driver sends SIGUSR1 before killing a shard that exceeded its
    # watchdog, so that the stacks of all threads end up in the shard log
    faulthandler.register(signal.SIGUSR1, all_threads=True, chain=False)
    with open(spec_path) as fd:
        spec = json.load(fd)
    cov = _start_coverage(os.environ.get('VERIF_COV'))
    res = Result()
    try:
        mon = importlib.import_module(f'vlib.monitors.{prop.lower()}')
        mon.run_shard(spec, res)
    except BaseException:
        # A crash of the harness is never a verdict about the library.
        res.inconclusive_because(
            f'shard {spec.get("name")} crashed: '
            + traceback.format_exc()[-1500:])
    with open(out_path, 'wb') as fd:
        pickle.dump(res.dump(), fd)
    if cov is not None:
        cov(f'{prop}-{spec.get("name")}')
    return 0


def _start_coverage(outdir):
    """VERIF_COV=<dir>: record which lines of lazy_dataset this shard executed
    (sys.monitoring LINE events, each location disabled after its first hit, so
    the cost is negligible).  Used by tools/coverage_map.py to find code the
    workloads never drive; it plays no part in any verdict."""
    if not outdir:
        return None
    import os
    mon = sys.monitoring
    tool = 4
    mon.use_tool_id(tool, 'verif-cov')
    hit = set()

    def on_line(code, line):
        fn = code.co_filename
        if 'lazy_dataset' in fn and 'vlib' not in fn:
            hit.add((os.path.basename(fn), line))
        return mon.DISABLE
    mon.register_callback(tool, mon.events.LINE, on_line)
    mon.set_events(tool, mon.events.LINE)

    def dump(name):
        os.makedirs(outdir, exist_ok=True)
        with open(os.path.join(outdir, name + '.json'), 'w') as fd:
            json.dump(sorted(hit), fd)
    return dump


if __name__ == '__main__':
    sys.exit(main(sys.argv[1:]))
