"""Process-pool cases (backends mp, dill_mp, multiprocessing, concurrent_mp).

Process schedules cannot be controlled; each case is one real execution in a
subprocess with seeded per-task delays that perturb the completion order.  The
history is the O_APPEND log of start/end records plus the delivered values."""
import os
import json
import shutil
import tempfile
import subprocess

from .common import PYTHON, HOME, REPO

BACKENDS = ('mp', 'dill_mp', 'multiprocessing', 'concurrent_mp')


def run_case(sc, timeout=120):
    """A case that does not finish within `timeout` is run a second time with
    four times the limit before it is reported as a hang: the limit is wall
    clock, and a machine that is busy with other work must not turn into a
    verdict about the library."""
    r = _run_case(sc, timeout)
    if r.get('timeout'):
        r = _run_case(sc, 4 * timeout)
        if r.get('timeout'):
            r['timeouts'] = [timeout, 4 * timeout]
    return r


def run_child(argv, timeout, **kw):
    """subprocess.run with the same rule: a second attempt with four times
    the limit before a TimeoutExpired is passed on."""
    try:
        return subprocess.run(argv, timeout=timeout, **kw)
    except subprocess.TimeoutExpired:
        return subprocess.run(argv, timeout=4 * timeout, **kw)


def _run_case(sc, timeout):
    tmp = tempfile.mkdtemp(prefix='verif_pp_')
    try:
        sc = dict(sc)
        sc['log'] = os.path.join(tmp, 'log.txt')
        env = dict(os.environ)
        env['PYTHONPATH'] = f'{REPO}:{HOME}'
        env['OMP_NUM_THREADS'] = env['MKL_NUM_THREADS'] = '1'
        try:
            p = subprocess.run([PYTHON, '-W', 'ignore', '-m', 'vlib.procpool_child',
                                json.dumps(sc)], cwd=str(HOME), env=env,
                               capture_output=True, text=True, timeout=timeout)
        except subprocess.TimeoutExpired:
            return {'timeout': True}
        line = [l for l in p.stdout.splitlines() if l.startswith('RESULT ')]
        if not line:
            return {'crash': (p.stderr or '')[-600:], 'rc': p.returncode}
        out = json.loads(line[0][7:])
        recs = []
        if os.path.exists(sc['log']):
            for l in open(sc['log']):
                what, i, t, pid = l.split()
                recs.append((what, int(i), float(t), int(pid)))
        recs.sort(key=lambda r: r[2])
        out['records'] = recs
        return out
    finally:
        shutil.rmtree(tmp, ignore_errors=True)


def tuplify(x):
    if isinstance(x, list):
        return tuple(tuplify(i) for i in x)
    return x


def delivered(part):
    return [tuplify(v) for v in part['delivered']]
