"""Pipeline programs: representation, construction on the real library, and
bounded-exhaustive / random generation.

    prog = {'src': (kind, n, warranty[, prefix, offset, order]), 'ops': [op, ...]}

Operations are tuples (JSON-able after `jsonable`).  A binary operation carries
its second operand as op[1]: 'self' (the same dataset object), 'selfmap'
(self.map(z)) or a nested program.
"""
import itertools

import numpy as np

from . import refmodel
from .refmodel import Unsupported, Skip, BINARY
from .terms import sid, all_ids, Fn, Pred, SortKey, ScriptedRandomState, scripted_perm


# ---------------------------------------------------------------- building
class Fns:
    """Factory of the user functions a build uses; subclasses add logging."""

    def fn(self, name, stage):
        return Fn(name)

    def pred(self, m, stage):
        return Pred(m, stage=stage)

    def sortkey(self, stage):
        return SortKey()

    def guard(self, poison_id, stage):
        def guard_fn(x):
            if poison_id in all_ids(x):
                raise PoisonedExample(('evaluated an example that was left out', poison_id))
            return x
        return guard_fn

    def filterraiser(self, ld, mod, stage):
        FE = ld.core.FilterException

        def raise_or_pass(x):
            if sid(x) % mod == 0:
                raise FE(x)
            return x
        return raise_or_pass

    def groupfn(self, mod, stage):
        from .terms import GroupFn
        return GroupFn(mod)


def make_source(ld, spec):
    kind, n, warranty = spec[0], spec[1], spec[2]
    prefix = spec[3] if len(spec) > 3 else 'k'
    off = spec[4] if len(spec) > 4 else 0
    order = spec[5] if len(spec) > 5 else 'fwd'
    idx = list(range(n)) if order == 'fwd' else list(range(n - 1, -1, -1))
    if kind == 'dict':
        data = {f'{prefix}{i}': off + i for i in idx}
        if warranty == 'from_dict':
            return ld.from_dict(data)
        return ld.new(data, immutable_warranty=warranty)
    data = [off + i for i in idx]
    if warranty == 'wu':
        return ld.from_list(data, immutable_warranty='wu')
    if warranty == 'tuple':
        return ld.new(tuple(data))
    return ld.new(data, immutable_warranty=warranty)


class PoisonedExample(Exception):
    """Raised by a 'mapguard' function for the one example it guards."""


def index_container(kind, idx):
    if kind == 'list':
        return list(idx)
    if kind == 'tuple':
        return tuple(idx)
    if kind == 'ndarray-bool':
        raise ValueError('needs n')
    dt = {'ndarray': np.int64, 'ndarray-u8': np.uint8, 'ndarray-i8': np.int8,
          'ndarray-i32': np.int32, 'ndarray-u16': np.uint16}[kind]
    return np.array(idx, dtype=dt)


def build(ld, prog, fns=None, stage_prefix='s', hook=None):
    """Build the real dataset.  `hook(i, ds, model_or_None)` is called after
    every operation (used for "items() after every prefix")."""
    fns = fns or Fns()
    ds = make_source(ld, prog['src'])
    m = refmodel.source(prog['src'])
    if hook:
        hook(0, ds, m)
    for i, op in enumerate(prog['ops']):
        stage = f'{stage_prefix}{i}'
        k = op[0]
        # optional arguments are passed positionally at odd positions of a
        # program and by keyword at even ones (both are public call forms)
        pos = i % 2 == 1
        # ... and boolean flags as Python bools or as numpy bools (what a
        # comparison on arrays returns), in turn
        B = (lambda v: np.bool_(v)) if i % 3 == 2 else (lambda v: v)
        # ... and integer parameters as Python ints or as numpy integers of
        # various widths (a batch size read from an array, a count from .shape)
        I = (np.uint8, np.int64, np.int16, int)[(i + len(prog['ops']) - 1) % 4]
        operand_ds = operand_m = None
        if k in BINARY:
            spec = op[1]
            if spec == 'self':
                operand_ds, operand_m = ds, (m.clone() if m is not None else None)
            elif spec == 'selfmap':
                operand_ds = ds.map(fns.fn('z', stage + 'z'))
                operand_m = (refmodel.apply(m, ('map', 'z')) if m is not None else None)
            else:
                operand_ds = build(ld, spec, fns, stage_prefix=stage + 'o')
                try:
                    operand_m = refmodel.run(spec)
                except (Unsupported, Skip):
                    operand_m = None
        # ---- the real operation
        if k == 'map':
            ds = ds.map(fns.fn(op[1], stage))
        elif k == 'reshuffle':
            ds = ds.shuffle(True, np.random.RandomState(op[1])) if pos else \
                ds.shuffle(reshuffle=True, rng=np.random.RandomState(op[1]))
        elif k == 'localshuffle':
            ds = ds.shuffle(True, np.random.RandomState(op[2]), op[1]) if pos else \
                ds.shuffle(reshuffle=True, rng=np.random.RandomState(op[2]),
                           buffer_size=op[1])
        elif k == 'mapfail':
            ds = ds.map(fns.raiser(op[1], op[2], stage))
        elif k == 'parmap':
            ds = ds.map(fns.fn(op[1], stage), op[2], op[3], 't') if pos else \
                ds.map(fns.fn(op[1], stage), num_workers=op[2], buffer_size=op[3],
                       backend='t')
        elif k == 'apply_eager':
            f = fns.fn(op[1], stage)
            ds = ds.apply(lambda d: d.map(f))
        elif k == 'apply_lazy':
            f = fns.fn(op[1], stage)
            ds = ds.apply(lambda d: d.map(f), True) if pos else \
                ds.apply(lambda d: d.map(f), lazy=True)
        elif k == 'filter':
            ds = ds.filter(fns.pred(op[1], stage))
        elif k == 'efilter':
            ds = ds.filter(fns.pred(op[1], stage), B(False)) if pos else \
                ds.filter(fns.pred(op[1], stage), lazy=B(False))
        elif k == 'slice':
            kind, payload = op[1], op[2]
            if kind == 'slice':
                ds = ds[slice(*payload)]
            elif kind == 'ndarray-bool':
                n = m.n if m is not None else 0
                ds = ds[np.isin(np.arange(n), refmodel.resolve_index_form(payload, n))]
            elif kind in ('list', 'tuple') or kind.startswith('ndarray'):
                n = m.n if m is not None else 0
                ds = ds[index_container(kind, refmodel.resolve_index_form(payload, n))]
            else:
                labels = m.labels if (m is not None and m.labelstate != 'none'
                                      and m.n) else ['k0']
                ks = refmodel.resolve_key_form(payload, labels)
                ds = ds[list(ks) if kind == 'keylist' else tuple(ks)]
        elif k == 'concat3':
            mid, last = (build(ld, x, fns, stage_prefix=stage + 'c')
                         for x in refmodel.concat3_operands(op[1], op[2]))
            form = op[2]
            if form.startswith('method-empty') or form.startswith('method-all'):
                ds = ds.concatenate(mid, last)
            elif form == 'method':
                ds = ds.concatenate(mid, last)
            elif form == 'method-list':
                ds = ds.concatenate([mid, last])
            elif form == 'function':
                ds = ld.concatenate(ds, mid, last)
            else:
                ds = ld.concatenate((ds, mid, last))
        elif k in ('concat_aba', 'intersperse_aba'):
            other = build(ld, refmodel.ABA_OTHER[op[1]], fns, stage_prefix=stage + 'o')
            third = ds.map(fns.fn('z', stage + 'z'))
            ds = ds.concatenate(other, third) if k == 'concat_aba' else \
                ds.intersperse(other, third)
        elif k in refmodel.NARY:
            if m is None:
                raise Unsupported('n-ary operand needs the model')
            pa, pb = refmodel.nary_operand_programs(m, op)
            da = ds.map(fns.fn('z', stage + 'z')) if pa == 'selfmap' else \
                build(ld, pa, fns, stage_prefix=stage + 'a')
            db = build(ld, pb, fns, stage_prefix=stage + 'b')
            if k == 'intersperse3':
                ds = ds.intersperse(da, db) if op[2] == 'method' else ld.intersperse(ds, da, db)
            elif k == 'zip3':
                ds = ds.zip(da, db) if op[2] == 'method' else ld.zip(ds, da, db)
            else:
                ds = ds.key_zip(da, db) if op[2] == 'method' else ld.key_zip(ds, da, db)
        elif k == 'groupby':
            mod = op[1]
            gf = fns.groupfn(mod, stage)
            ds = ds.groupby(gf)[op[2]]
        elif k == 'concat':
            ds = ds.concatenate(operand_ds)
        elif k == 'intersperse':
            ds = ds.intersperse(operand_ds)
        elif k == 'zip':
            ds = ds.zip(operand_ds)
        elif k == 'key_zip':
            ds = ds.key_zip(operand_ds)
        elif k == 'batch':
            ds = ds.batch(I(op[1]), B(op[2])) if pos else \
                ds.batch(batch_size=I(op[1]), drop_last=B(op[2]))
        elif k == 'unbatch':
            ds = ds.unbatch()
        elif k == 'batch_map':
            ds = ds.batch_map(fns.fn(op[1], stage))
        elif k == 'items':
            ds = ds.items()
        elif k == 'tile':
            ds = ds.tile(I(op[1]))
        elif k == 'tile_shuffle':
            np.random.seed(op[2])
            ds = ds.tile(op[1], B(True)) if pos else ds.tile(reps=op[1], shuffle=B(True))
        elif k == 'cycle':
            ds = ds.cycle()
        elif k == 'shuffle':
            ds = ds.shuffle(False, ScriptedRandomState(scripted_perm(op[1]))) if pos else \
                ds.shuffle(reshuffle=False, rng=ScriptedRandomState(scripted_perm(op[1])))
        elif k == 'sort':
            ds = ds.sort(fns.sortkey(stage), sorted, B(op[1])) if pos else \
                ds.sort(fns.sortkey(stage), reverse=B(op[1]))
        elif k == 'sort_keyless':
            ds = ds.sort(None, sorted, B(op[1])) if pos else ds.sort(reverse=B(op[1]))
        elif k == 'shard':
            ds = ds.shard(I(op[1]), I(op[2])) if pos else \
                ds.shard(num_shards=I(op[1]), shard_index=I(op[2]))
        elif k == 'split':
            ds = (ds.split(I(op[1])) if pos else ds.split(sections=I(op[1])))[I(op[2])]
        elif k == 'cache':
            ds = ds.cache()
        elif k == 'ecache':
            ds = ds.cache(B(False)) if pos else ds.cache(lazy=B(False))
        elif k == 'catch':
            ds = ds.catch()
        elif k == 'single':
            what, form = op[1], op[2]
            fn = {'zip': ld.zip, 'key_zip': ld.key_zip, 'concatenate': ld.concatenate,
                  'intersperse': ld.intersperse}[what]
            if form == 'function':
                ds = fn(ds)
            elif form == 'function-list':
                ds = fn([ds])
            elif form == 'function-tuple':
                ds = fn((ds,))
            else:
                ds = getattr(ds, what)()
        elif k == 'mapguard':
            ds = ds.map(fns.guard(op[1], stage))
        elif k == 'catchfilter':
            ds = ds.map(fns.filterraiser(ld, op[1], stage)).catch()
        elif k == 'catchprefetch':
            ds = ds.map(fns.filterraiser(ld, op[1], stage)).prefetch(
                2, 3, 't', catch_filter_exception=True)
        elif k == 'copy':
            ds = ds.copy()
        elif k == 'freeze':
            ds = ds.copy(B(True)) if pos else ds.copy(freeze=B(True))
        elif k == 'prefetch1':
            ds = ds.prefetch(I(1), I(op[1])) if pos else \
                ds.prefetch(num_workers=I(1), buffer_size=I(op[1]))
        elif k == 'prefetcht':
            ds = ds.prefetch(I(op[1]), I(op[2]), 't') if pos else \
                ds.prefetch(num_workers=I(op[1]), buffer_size=I(op[2]), backend='t')
        else:
            raise ValueError(f'unknown op {op!r}')
        # ---- the model alongside (only needed to resolve symbolic forms)
        if m is not None:
            try:
                if k in BINARY and operand_m is None:
                    m = None
                elif k == 'concat3':
                    m = refmodel.apply(m, op, tuple(
                        refmodel.run(x) for x in refmodel.concat3_operands(op[1], op[2])))
                elif k in ('concat_aba', 'intersperse_aba'):
                    m = refmodel.apply(m, op, (refmodel.run(refmodel.ABA_OTHER[op[1]]),
                                               refmodel.apply(m, ('map', 'z'))))
                elif k in refmodel.NARY:
                    m = refmodel.apply(m, op, refmodel.nary_operands(m, op))
                else:
                    m = refmodel.apply(m, op, operand_m)
            except (Unsupported, Skip):
                m = None
        if hook:
            hook(i + 1, ds, m)
    return ds


# -------------------------------------------------------------- generation
SLICES = [(None, None, None), (1, None, None), (None, -1, None), (None, None, -1),
          (None, None, 2), (1, None, 2), (None, -1, 2), (None, None, -2),
          (-2, None, None), (0, 0, None), (2, 1, None), (None, 2, None),
          (-1, None, -1), (1, -1, None)]
INDEX_FORMS = ['empty', 'first-first-last', 'rev', 'mid', 'neg-all', 'evens']
KEY_FORMS = ['first', 'last-first', 'all-rev']

OTHER_LIST = {'src': ('list', 2, 'pickle', 'q', 100), 'ops': []}
OTHER_DICT = {'src': ('dict', 2, 'pickle', 'q', 100), 'ops': []}
OTHER_DICT3 = {'src': ('dict', 3, 'pickle', 'q', 100), 'ops': [('map', 'g')]}


def same_len_other(n, kind):
    return {'src': (kind, n, 'pickle', 'q', 100), 'ops': []}


def same_keys_other(n):
    return {'src': ('dict', n, 'pickle', 'k', 100, 'rev'), 'ops': []}


def alphabet(n, kind, small=False):
    """Operation alphabet for a dataset whose *source* has n examples."""
    ops = [('map', 'f'), ('map', 'g'), ('parmap', 'f', 2, 2), ('parmap', 'f', 2, 3),
           ('filter', 2), ('filter', 3), ('efilter', 2), ('efilter', 3)]
    ops += [('slice', 'slice', s) for s in SLICES]
    ops += [('slice', c, f) for c, f in
            [('list', 'empty'), ('list', 'first-first-last'), ('tuple', 'rev'),
             ('ndarray', 'mid'), ('ndarray', 'neg-all'), ('list', 'evens'),
             ('tuple', 'mid'), ('ndarray', 'empty'),
             # other integer widths (numpy scalars of these types reach the
             # stages' index arithmetic) and a boolean mask
             ('ndarray-u8', 'mid'), ('ndarray-u8', 'evens'), ('ndarray-i8', 'neg-all'),
             ('ndarray-i32', 'rev'), ('ndarray-u16', 'evens'), ('ndarray-bool', 'evens')]]
    if n > 120:
        ops = [o for o in ops if not (o[0] == 'slice' and o[1] in ('ndarray-u8', 'ndarray-i8'))]
    ops += [('slice', 'keylist', 'first'), ('slice', 'keytuple', 'last-first'),
            ('slice', 'keylist', 'all-rev'), ('slice', 'keytuple', 'first')]
    other = OTHER_DICT if kind == 'dict' else OTHER_LIST
    ops += [('concat', 'self'), ('concat', 'selfmap'), ('concat', other),
            ('intersperse', 'self'), ('intersperse', 'selfmap'), ('intersperse', other),
            ('intersperse', OTHER_DICT3 if kind == 'dict' else OTHER_LIST),
            ('zip', 'self'), ('zip', 'selfmap'), ('zip', same_len_other(n, kind)),
            ('key_zip', 'selfmap'), ('key_zip', same_keys_other(n)),
            ('key_zip', 'self')]
    ops += [('batch', 1, False), ('batch', 2, False), ('batch', 2, True),
            ('batch', 3, False), ('batch', 3, True), ('unbatch',), ('batch_map', 'f'),
            ('items',), ('tile', 1), ('tile', 2), ('tile', 3), ('tile_shuffle', 2, 5),
            ('cycle',), ('shuffle', 1), ('shuffle', 2), ('sort', False), ('sort', True),
            ('sort_keyless', False), ('sort_keyless', True),
            ('shard', 2, 0), ('shard', 2, 1), ('shard', 3, 1), ('split', 3, 2),
            ('split', 1, 0), ('cache',), ('ecache',), ('catch',), ('catchfilter', 2),
            ('catchfilter', 3), ('catchprefetch', 2), ('catchprefetch', 3), ('copy',),
            ('freeze',),
            ('mapguard', 0), ('mapguard', 1), ('mapguard', max(n - 1, 0)),
            ('concat_aba', kind), ('intersperse_aba', kind),
            ('single', 'zip', 'function'), ('single', 'zip', 'function-list'),
            ('single', 'zip', 'method'), ('single', 'concatenate', 'function'),
            ('single', 'concatenate', 'function-tuple'), ('single', 'concatenate', 'method'),
            ('single', 'intersperse', 'function'), ('single', 'key_zip', 'function'),
            ('prefetch1', 1), ('prefetch1', 2), ('prefetcht', 2, 2), ('prefetcht', 2, 3),
            ('apply_eager', 'h'), ('apply_lazy', 'h')]
    ops += [('concat3', kind, 'method'), ('concat3', kind, 'method-list'),
            ('concat3', kind, 'function'), ('concat3', kind, 'function-tuple'),
            ('concat3', kind, 'method-empty-last'), ('concat3', kind, 'method-all-empty'),
            ('concat', refmodel.EMPTY_DICT if kind == 'dict' else refmodel.EMPTY_LIST),
            ('groupby', 2, 0), ('groupby', 2, 1), ('groupby', 3, 2),
            ('intersperse3', kind, 'method'), ('intersperse3', kind, 'function'),
            ('zip3', kind, 'method'), ('zip3', kind, 'function'),
            ('key_zip3', kind, 'method'), ('key_zip3', kind, 'function')]
    return ops


SOURCES = [('dict', 0, 'pickle'), ('dict', 1, 'pickle'), ('dict', 2, 'pickle'),
           ('dict', 3, 'pickle'), ('dict', 5, 'pickle'), ('dict', 4, 'copy'),
           ('dict', 3, 'from_dict'),
           ('list', 0, 'pickle'), ('list', 1, 'pickle'), ('list', 2, 'copy'),
           ('list', 3, 'pickle'), ('list', 5, 'wu'), ('list', 4, 'tuple'),
           ('list', 7, 'pickle'), ('dict', 7, 'pickle'), ('list', 0, 'wu')]


def classify(prog):
    """'ok' (model defines the result), 'unsupported' (library should refuse) or
    'skip'."""
    try:
        m = refmodel.run(prog)
        return 'ok', m
    except Unsupported as e:
        return 'unsupported', str(e)
    except Skip:
        return 'skip', None


def exhaustive(depth, sources=SOURCES):
    """All programs of exactly `depth` operations over every source."""
    for src in sources:
        alpha = alphabet(src[1], src[0])
        for ops in itertools.product(alpha, repeat=depth):
            yield {'src': src, 'ops': list(ops)}


def random_program(rng, max_depth, sources=SOURCES, big=False):
    src = rng.choice(sources)
    if big:
        src = (src[0], rng.choice((8, 9, 10, 12)), src[2])
        if src[2] in ('from_dict',) and src[0] != 'dict':
            src = (src[0], src[1], 'pickle')
    alpha = alphabet(src[1], src[0])
    depth = rng.randint(1, max_depth)
    ops = []
    prog = {'src': src, 'ops': ops}
    tries = 0
    while len(ops) < depth and tries < 60:
        tries += 1
        op = rng.choice(alpha)
        ops.append(op)
        status, _ = classify(prog)
        if status == 'skip' or (status == 'unsupported' and rng.random() < 0.9):
            ops.pop()
    return prog


def op_name(op):
    if op[0] == 'slice':
        return f'slice:{op[1]}'
    if op[0] in BINARY:
        return f'{op[0]}:{op[1] if isinstance(op[1], str) else "other"}'
    return op[0]
