"""Consumption paths.

A user does not only iterate the object a combinator returned: the same
pipeline is consumed through `copy()`, `copy(freeze=True)`, below a lazy
`apply` (which iterates a frozen copy of whatever the applied function returns,
anew for every epoch), inside the `ProfilingDataset` (which copies its input)
and below stages that merely forward (a `map` with the identity).  Every
configuration parameter of a stage must survive all of these, so the monitors
whose statement is about a *parameter* (buffer size, caught exceptions, bucket
limits, ...) observe the pipeline through each of them.

`through(ld, ds, how)` returns the dataset to consume.  `VIAS` lists all paths,
`COPYING` those that involve a copy of the stage.
"""

VIAS = ('direct', 'copy', 'frozen-copy', 'copy-of-copy', 'lazy-apply',
        'lazy-apply-building', 'profiling', 'map-then-copy')
COPYING = tuple(v for v in VIAS if v != 'direct')


def _same(ds):
    return ds


def through(ld, ds, how, rebuild=None):
    """`rebuild(input)` (optional) builds the stage under test on top of a
    given input; used by 'lazy-apply-building' to create the stage inside the
    applied function, as the ApplyDataset docstring recommends."""
    if how == 'direct':
        return ds
    if how == 'copy':
        return ds.copy()
    if how == 'frozen-copy':
        return ds.copy(freeze=True)
    if how == 'copy-of-copy':
        return ds.copy().copy(freeze=True)
    if how == 'lazy-apply':
        return ds.apply(_same, lazy=True)
    if how == 'lazy-apply-building':
        if rebuild is None:
            return ds.apply(_same, lazy=True)
        base, build = rebuild
        return base.apply(build, lazy=True)
    if how == 'profiling':
        return ld.core.ProfilingDataset(ds)
    if how == 'map-then-copy':
        return ds.map(_same).copy(freeze=True)
    raise ValueError(how)
