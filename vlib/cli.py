"""./verif check|replay|selftest|all"""
import sys
import json
import argparse

from .common import env_seed, env_tier, PROPERTIES, unjson


def main(argv=None):
    ap = argparse.ArgumentParser(prog='verif')
    sub = ap.add_subparsers(dest='cmd', required=True)
    c = sub.add_parser('check')
    c.add_argument('prop')
    c.add_argument('--tier', default=None)
    c.add_argument('--seed', type=int, default=None)
    c.add_argument('--shard', default=None, help='only shards whose name contains this')
    r = sub.add_parser('replay')
    r.add_argument('path')
    s = sub.add_parser('selftest')
    s.add_argument('prop')
    s.add_argument('--only', default=None)
    s.add_argument('--tier', default='quick')
    a = sub.add_parser('all')
    a.add_argument('--tier', default=None)
    args = ap.parse_args(argv)

    if args.cmd == 'check':
        from . import driver
        tier = args.tier or env_tier()
        seed = env_seed() if args.seed is None else args.seed
        return driver.check(args.prop.upper(), tier, seed, args.shard)
    if args.cmd == 'all':
        from . import driver
        tier = args.tier or env_tier()
        worst = 0
        for p in PROPERTIES:
            try:
                rc = driver.check(p, tier, env_seed())
            except ModuleNotFoundError:
                print(f'{p}: no monitor')
                continue
            worst = max(worst, rc)
        return worst
    if args.cmd == 'replay':
        from . import driver
        from .result import Result
        with open(args.path) as fd:
            w = json.load(fd)
        mon = driver.load_monitor(w['property'])
        res = Result()
        mon.replay(unjson(w['case']), res)
        if res.violations:
            for v in res.violations:
                print(f'VIOLATION property={w["property"]} replay={args.path}')
                print(json.dumps(v, indent=1, default=repr)[:3000])
            return 1
        print('replay: no violation reproduced')
        return 0
    if args.cmd == 'selftest':
        from . import selftest
        return selftest.main(args.prop.upper(), args.only, args.tier)


if __name__ == '__main__':
    sys.exit(main())
